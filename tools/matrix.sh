#!/bin/bash
# tools/matrix.sh : run seeded changes against their own and related checks (scratch worktrees only)
cd "$(dirname "$0")/.."
export VF_NPROC=${VF_NPROC:-6}
pairs="C01a:C01,C02,C05 C01b:C01,C10,C05 C02a:C02,C03 C02b:C02,C03 C03a:C03,C04 C03b:C03,C04,C01 C04a:C04,C02 C04b:C04,C16 C05a:C05,C03 C05b:C05,C01
C06a:C06,C11 C06b:C06 C07a:C07,C09 C07b:C07,C09 C08a:C08,C09 C08b:C08,C09 C09a:C09,C10,C13 C09b:C09,C08 C10a:C10,C13,C09 C10b:C10,C01 C11a:C11,C18 C11b:C11,C18
C12a:C12,C08,C09 C12b:C12,C08,C09 C13a:C13,C09 C13b:C13,C09,C10 C14a:C14,C02 C14b:C14 C15a:C15,C08 C15b:C15 C16a:C16,C04 C16b:C16 C17a:C17,C08 C17b:C17,C08 C18a:C18,C11 C18b:C18,C03"
for p in $pairs; do
  name=${p%%:*}; ids=${p##*:}
  for id in ${ids//,/ }; do
    ./mutate.sh $name $id quick 2>/dev/null | tail -1
  done
done
