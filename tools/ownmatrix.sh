#!/bin/bash
# tools/ownmatrix.sh [ids...] : every seeded change against the check of its own property (scratch worktrees only),
# two at a time.  Output lines are in the format tools/mkmatrix.py reads.
cd "$(dirname "$0")/.."
export VF_NPROC=${VF_NPROC:-8}
ids=${@:-C01 C02 C03 C04 C05 C06 C07 C08 C09 C10 C11 C12 C13 C14 C15 C16 C17 C18}
names=""
for id in $ids; do for d in seeded/${id}?; do [ -f $d/patch.diff ] && names="$names $(basename $d):$id"; done; done
echo $names | tr ' ' '\n' | xargs -P 2 -I{} bash -c 'p={}; timeout 2400 ./mutate.sh ${p%%:*} ${p##*:} quick 2>/dev/null | tail -1 | sed "s/ wall=.*//"'
