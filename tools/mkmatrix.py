#!/usr/bin/env python3
"""tools/mkmatrix.py <matrix.log> : writes seeded/MATRIX.md and the detected_by field of every seeded/<name>/meta.json"""
import json, os, re, sys, collections
ROOT = os.path.dirname(os.path.dirname(os.path.abspath(__file__)))
res = collections.defaultdict(dict)
for line in open(sys.argv[1]):
    m = re.match(r'^(C\d\d[a-h]) on (C\d\d): exit=(\d+) violations=(\d+) harness_errors=(\d+)', line)
    if m:
        name, chk, rc, v, h = m.group(1), m.group(2), int(m.group(3)), int(m.group(4)), int(m.group(5))
        res[name][chk] = 'caught (exit 1)' if rc == 1 else ('inconclusive (exit 2)' if rc == 2 else ('missed' if rc == 0 else 'run aborted'))
rows = ['# Seeded changes x checks (quick tier, `./mutate.sh <change> <check>`)', '',
        'Each change was applied to a scratch worktree of /repo at the current HEAD; "caught" = the check exited 1 with a VIOLATION line whose',
        'counterexample replayed on the real (changed) code. "missed" under a check other than the property\'s own is expected: the change does not',
        'touch what that property covers.', '', '| change | property | what was changed | own check | other checks run |', '|---|---|---|---|---|']
for name in sorted(os.listdir(os.path.join(ROOT, 'seeded'))):
    mp = os.path.join(ROOT, 'seeded', name, 'meta.json')
    if not os.path.exists(mp):
        continue
    meta = json.load(open(mp))
    own = meta['property']
    r = res.get(name, {})
    meta['detected_by'] = sorted(k for k, v in r.items() if v.startswith('caught')) or meta.get('detected_by')
    meta['missed_by'] = sorted(k for k, v in r.items() if v == 'missed')
    json.dump(meta, open(mp, 'w'), indent=1)
    others = ', '.join('%s: %s' % (k, v.split(' ')[0]) for k, v in sorted(r.items()) if k != own)
    rows.append('| %s | %s | %s | %s | %s |' % (name, own, (meta.get('summary') or '').replace('|', '/')[:140], r.get(own, 'not run'), others))
open(os.path.join(ROOT, 'seeded', 'MATRIX.md'), 'w').write('\n'.join(rows) + '\n')
print('\n'.join(rows[-36:]))
