#!/bin/bash
# tools/benign.sh <patch.diff> [checks...] : a behaviour-preserving change must not raise any alarm.
# Applies the patch to a scratch worktree and runs the quick checks against it.
cd "$(dirname "$0")/.."
patch=$1; shift
checks=${@:-C01 C02 C03 C04 C05 C06 C07 C08 C09 C10 C11 C12 C13 C14 C15 C16 C17 C18}
wt=/tmp/vfmut/benign.$$; mkdir -p /tmp/vfmut
git -C /repo worktree add --detach $wt HEAD >/dev/null 2>&1 || exit 3
git -C $wt apply $patch || { echo "patch does not apply"; git -C /repo worktree remove --force $wt; exit 3; }
out=$wt.out; mkdir -p $out
for id in $checks; do
  VF_REPO=$wt VF_OUT=$out ./check $id --tier quick > $out/$id.log 2>&1; rc=$?
  if [ $rc -ne 0 ]; then echo "ALARM $(basename $(dirname $patch))/$(basename $patch) $id rc=$rc"; cp $out/$id.log /tmp/benign_$(basename $(dirname $(dirname $patch)))$(basename $(dirname $patch))_$id.log; else echo "ok $id"; fi
done
git -C /repo worktree remove --force $wt; rm -rf $out
