#!/bin/bash
# tools/run_all.sh [tier] : run every check sequentially, print one line per check
cd "$(dirname "$0")/.."
tier=${1:-quick}
for id in ${CHECKS:-C01 C02 C03 C04 C05 C06 C07 C08 C09 C10 C11 C12 C13 C14 C15 C16 C17 C18}; do
  s=$(date +%s)
  ./check $id --tier $tier > /tmp/runall_$id.log 2>&1; rc=$?
  echo "$id rc=$rc $(( $(date +%s) - s ))s $(tail -1 /tmp/runall_$id.log | cut -c1-160)"
done
