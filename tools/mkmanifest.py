#!/usr/bin/env python3
"""Regenerates MANIFEST.json from the property modules present under vf/props."""
import importlib, json, os, sys
ROOT = os.path.dirname(os.path.dirname(os.path.abspath(__file__)))
sys.path.insert(0, ROOT)
props = [json.loads(l) for l in open(os.path.join(ROOT, 'properties.jsonl'))]
NA = json.load(open(os.path.join(ROOT, 'tools', 'not_applicable.json')))
checks, na = [], []
for p in props:
    pid = p['id']
    path = os.path.join(ROOT, 'vf', 'props', pid.lower() + '.py')
    if not os.path.exists(path) or pid in NA.get('force', {}):
        na.append({'property_id': pid, 'reason': NA.get('force', {}).get(pid) or NA['default']})
        continue
    m = importlib.import_module('vf.props.' + pid.lower())
    checks.append({
        'property_id': pid,
        'quick_cmd': './check %s --tier quick' % pid,
        'thorough_cmd': './check %s --tier thorough' % pid,
        'evidence_file': 'evidence/%s.json' % pid,
        'replay_cmd_template': './check %s --replay {path}' % pid,
        'engine': getattr(m, 'ENGINE', 'pathsym + lp2smt (z3)'),
        'level_claimed': {'category': m.LEVEL, 'text': m.LEVEL_TEXT, 'design_ref': 'DESIGN.md section 5, ' + pid},
        'level_note': m.LEVEL_NOTE,
        'technique': m.TECHNIQUE,
    })
man = {
    'version': 1,
    'setup_cmd': 'python3 vf/env.py',
    'hooks': {'guard': 'MATCHINGPROBLEMS_VERIF',
              'enable': 'no source hooks: all observation is by import-time substitution from /verif (PYTHONPATH=/repo first); the guard name is reserved but unused',
              'baseline_off_cmd': 'cd /repo && /venv/bin/python -m pytest -ra -q -p no:cacheprovider --timeout=900',
              'source_commits': [], 'add_only': True},
    'engines': [
        {'name': 'pathsym', 'path': 'vf/sym.py', 'kind_free_text': 'symbolic execution of the real Python functions by operator overloading, z3 path feasibility, re-execution DFS', 'serves_properties': [c['property_id'] for c in checks]},
        {'name': 'lp2smt-E2', 'path': 'vf/pulpshim.py vf/e2.py vf/lp.py', 'kind_free_text': 'real lp_solver.py run against a recording PuLP stand-in with symbolic quotas; integer programs -> z3 (QF and exists-forall)', 'serves_properties': [c['property_id'] for c in checks if c['property_id'] in ('C01','C02','C03','C04','C05','C14','C16','C18')]},
        {'name': 'spec', 'path': 'vf/spec.py', 'kind_free_text': 'oracle written from the property statements (z3 and plain-Python renderings)', 'serves_properties': [c['property_id'] for c in checks]},
    ],
    'checks': checks,
    'not_applicable': na,
    'notes': 'All checks regenerate their encodings from /repo working tree on every run; exit 2 = harness error / inconclusive.',
}
json.dump(man, open(os.path.join(ROOT, 'MANIFEST.json'), 'w'), indent=1)
print('checks:', [c['property_id'] for c in checks], 'n/a:', [x['property_id'] for x in na])
