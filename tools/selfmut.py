#!/usr/bin/env python3
"""tools/selfmut.py [name ...] : small hand-written mutants (string replacement in a scratch worktree of /repo),
each run against the check(s) of the property it targets.  Never touches /repo itself.
Writes mutants/RESULTS.md."""
import json, os, subprocess, sys, tempfile, shutil
ROOT = os.path.dirname(os.path.dirname(os.path.abspath(__file__)))
S = 'matchingproblems/solver/'
G = 'matchingproblems/generator/'
M = [
 ('M01_student_limit_2', S + 'lp_solver.py', 'lpSum([pair.lp_var for pair in pairs_row]) <= 1, ', 'lpSum([pair.lp_var for pair in pairs_row]) <= 2, ', ['C01']),
 ('M02_lec_uq_uses_lq', S + 'lp_solver.py', '<= self.model.lec_upper_quotas[lec_index]), ', '<= self.model.lec_lower_quotas[lec_index]), ', ['C01', 'C02']),
 ('M03_hr_target_is_lower', S + 'fileIO.py', 'model.lec_targets.append(int(line_split[2]))\n                    model.lec_upper_quotas.append(int(line_split[2]))', 'model.lec_targets.append(int(line_split[1]))\n                    model.lec_upper_quotas.append(int(line_split[2]))', ['C10', 'C03']),
 ('M04_degree_min', S + 'model.py', 'if pair.rank_student > max_matched_rank:', 'if pair.rank_student >= max_matched_rank + 2:', ['C11']),
 ('M05_generous_cutoff_off_by_one', S + 'lp_solver.py', 'max(0, up_to_postition_inclusive - 1), -1):', 'max(0, up_to_postition_inclusive), -1):', ['C03']),
 ('M06_greedy_default_short', S + 'lp_solver.py', 'up_to_postition_inclusive = len(self.model.rank_lists) if len(additional_arguments) < 1', 'up_to_postition_inclusive = len(self.model.rank_lists) - 1 if len(additional_arguments) < 1', ['C03']),
 ('M07_min_freeze_wrong_direction', S + 'lp_solver.py', 'self.prob += objective_function <= objective_function.varValue', 'self.prob += objective_function >= objective_function.varValue', ['C04', 'C02']),
 ('M08_stab_strict_better', S + 'lp_solver.py', 'if (lec_pair.rank_lecturer <= aim_rank and ', 'if (lec_pair.rank_lecturer < aim_rank and ', ['C05']),
 ('M09_position_9_refused', S + 'options_parser.py', 'if ordering < 1 or ordering > len(opts):', 'if ordering < 1 or ordering >= len(opts):', ['C16']),
 ('M10_quota_remainder_last', G + 'generator_shared.py', '        if i < remainder:', '        if i >= n - remainder:', ['C08']),
 ('M11_tie_on_last_entry', G + 'generator_shared.py', 'if not in_tie and ties_indicators[i] and i < len(pref_list) - 1:', 'if not in_tie and ties_indicators[i] and i < len(pref_list):', ['C13', 'C08']),
 ('M12_moregen_skips_rank1', S + 'brute_force_solver.py', 'for i in range(len(profile1) - 1, -1, -1):', 'for i in range(len(profile1) - 1, 0, -1):', ['C07']),
 ('M13_status_not_checked', S + 'model.py', "        if not self.pulp_status == self.OPTIMAL_PULP_STATUS: \n            return results", "        if self.pulp_status == 'Infeasible': \n            return results", ['C14']),
 ('M14_pmax_equal_n2_rejected', G + 'instance_options_parser.py', 'if args.maxpreflistlength > args.n2:', 'if args.maxpreflistlength >= args.n2:', ['C15']),
 ('M15_student_lec_off_by_one', G + 'generator_spa.py', '                ranked_lecs[lec - 1] = True', '                ranked_lecs[min(lec, n3 - 1)] = True', ['C12']),
 ('M16_skew_denominator', G + 'generator_shared.py', '(skew - 1)/(number_agents - 1))', '(skew - 1)/(number_agents))', ['C17']),
 ('M17_lecturer_rank_ignores_ties', S + 'fileIO.py', 'student_ranks[(lec_num, simp_lec_prefs[i])] = simp_lec_ranks[i]', 'student_ranks[(lec_num, simp_lec_prefs[i])] = i + 1', ['C10', 'C13']),
 ('M18_no_underload_constraint', S + 'lp_solver.py', '            self.prob += (self.model.abs_lec_diff[lec_index] >= \n                self.model.lec_underload[lec_index])\n', '', ['C03']),
 ('M19_abs_diff_always_pos', S + 'model.py', '            if lpos > lneg:', '            if lpos > lneg or True:', ['C11']),
 ('M20_closure_lq_uses_uq', S + 'lp_solver.py', 'pc_lq_exp += self.model.project_closures[proj_index] * lq', 'pc_lq_exp += self.model.project_closures[proj_index] * uq', ['C02', 'C01']),
 ('M21_3a_or', S + 'model.py', 'if (p_undersubscribed and l_undersubscribed):', 'if (p_undersubscribed or l_undersubscribed):', ['C06']),
 ('M22_quota_columns_swapped', G + 'generator_ha_sm_hr.py', 'str(lower_quotas[x]) + ": " + str(upper_quotas[x]) + ": " + ', 'str(upper_quotas[x]) + ": " + str(lower_quotas[x]) + ": " + ', ['C08', 'C09']),
 ('M23_mincost_lecturer_uses_student_rank', S + 'lp_solver.py', 'sum_costs_exp += pair.lp_var * pair.rank_lecturer * lecturer_multiplier', 'sum_costs_exp += pair.lp_var * pair.rank_student * lecturer_multiplier', ['C03']),
 ('M24_resolve_keeps_status', S + 'solver.py', '            self.model.pulp_status = pulp_status', "            self.model.pulp_status = self.model.pulp_status or pulp_status", ['C18']),
 ('M25_bf_sum_dev_max', S + 'brute_force_solver.py', 'if sum_lec_abs_diff < self.optimal_sum_lec_abs_diff:', 'if sum_lec_abs_diff <= self.optimal_sum_lec_abs_diff and size >= self.optimal_size:', ['C07']),
 ('M26_shuffle_dropped_sorted', G + 'generator_shared.py', '    for prefs_list_agent2 in prefs_lists_agent2:\n        random.shuffle(prefs_list_agent2)\n', '', ['C12', 'C08']),
 ('M27_twopl_ignored_in_sm_file_reader', S + 'fileIO.py', 'proj_num = len(model.proj_lower_quotas)\n', 'proj_num = len(model.proj_lower_quotas) - 0 if index > 0 else 1\n', ['C10']),
 ('M28_timeout_never', S + 'model.py', 'if self.pulp_status == self.NOTSOLVED_PULP_STATUS or total_s > self.time_limit: ', 'if total_s > self.time_limit: ', ['C14']),
]


def run(name, path, a, b, checks, tests=True):
    wt = tempfile.mkdtemp(prefix='vfselfmut_')
    os.rmdir(wt)
    subprocess.check_call(['git', '-C', '/repo', 'worktree', 'add', '--detach', wt, 'HEAD'], stdout=subprocess.DEVNULL, stderr=subprocess.DEVNULL)
    out = []
    try:
        f = os.path.join(wt, path)
        s = open(f).read()
        if s.count(a) < 1:
            return [(name, 'pattern not found', '')]
        open(f, 'w').write(s.replace(a, b, 1))
        t = subprocess.run(['/venv/bin/python', '-m', 'pytest', '-q', '-p', 'no:cacheprovider', '-x'], cwd=wt, env=dict(os.environ, PYTHONPATH=wt),
                           capture_output=True, text=True)
        tests_pass = t.returncode == 0
        for c in checks:
            od = tempfile.mkdtemp(prefix='vfselfmut_out_')
            r = subprocess.run([os.path.join(ROOT, 'check'), c, '--tier', 'quick'], env=dict(os.environ, VF_REPO=wt, VF_OUT=od), capture_output=True, text=True)
            shutil.rmtree(od, ignore_errors=True)
            out.append((name, c, {0: 'MISSED', 1: 'caught', 2: 'inconclusive'}.get(r.returncode, 'rc%d' % r.returncode), 'tests pass' if tests_pass else 'tests FAIL (would be caught by the suite)'))
    finally:
        subprocess.call(['git', '-C', '/repo', 'worktree', 'remove', '--force', wt])
    return out


if __name__ == '__main__':
    want = sys.argv[1:]
    rows = []
    for m in M:
        if want and not any(m[0].startswith(w) for w in want):
            continue
        for r in run(*m):
            print(' '.join(r), flush=True)
            rows.append(r)
    if not want:
        with open(os.path.join(ROOT, 'mutants', 'RESULTS.md'), 'w') as f:
            f.write('# Hand-written mutants (tools/selfmut.py), quick tier\n\n| mutant | check | result | existing test suite |\n|---|---|---|---|\n')
            for r in rows:
                f.write('| %s |\n' % ' | '.join(r))
