"""Contract stubs for the random sources of the generator (each is part of the claim).

np.random.randint(a, b)            any integer in [a, b)
np.random.choice(pop, k, replace=False, p)   any k pairwise-distinct members of pop
                                   (precondition: len(p) == len(pop), k <= len(pop), recorded)
np.random.choice([0,1], n, p=[1-t,t])        any 0/1 vector; all 0 if t == 0, all 1 if t == 1
random.shuffle(x)                  any permutation, in place
np.sum / np.arange / np.array      exact
"""
import z3

from . import sym as S


class Recorder:
    def __init__(self):
        self.randint_calls = []
        self.choice_calls = []
        self.tie_calls = []
        self.shuffles = 0
        self.violations = []


class PyRandom:
    def __init__(self, rec):
        self.rec = rec

    def shuffle(self, x):
        e = S.engine()
        old = list(x)
        n = len(old)
        self.rec.shuffles += 1
        if n <= 1:
            return None
        # a permutation given by pairwise-distinct symbolic indices (handles equal elements)
        idx = [e.fresh_int('pi') for _ in range(n)]
        ot = [S.term_of(o) for o in old]
        for i in range(n):
            e.assume((idx[i] >= 0) & (idx[i] < n))
            for j in range(i):
                e.assume(idx[i].t != idx[j].t)
        ys = []
        for i in range(n):
            t = ot[n - 1]
            for k in range(n - 2, -1, -1):
                t = z3.If(idx[i].t == k, ot[k], t)
            ys.append(S.SymInt(t))
        for i in range(n):
            x[i] = ys[i]
        return None


class NpRandom:
    def __init__(self, rec):
        self.rec = rec

    def randint(self, low, high=None):
        e = S.engine()
        if not S.is_sym(low) and not S.is_sym(high) and low >= high:
            raise ValueError('low >= high')        # what numpy does
        v = e.fresh_int('len')
        e.assume((v >= low) & (v < high))
        self.rec.randint_calls.append((low, high, v))
        return v

    def choice(self, a, size=None, replace=True, p=None):
        e = S.engine()
        pop = list(a)
        if replace is False:
            k = int(size)          # forks over every feasible length
            if p is None or len(list(p)) != len(pop):
                self.rec.violations.append('choice: p missing or of wrong length')
            if k > len(pop):
                raise ValueError("Cannot take a larger sample than population when 'replace=False'")
            pt = [S.term_of(o) for o in pop]
            out = []
            for _ in range(k):
                v = e.fresh_int('pick')
                e.assume(z3.Or([v.t == o for o in pt]))
                for w in out:
                    e.assume(v.t != w.t)
                out.append(v)
            self.rec.choice_calls.append({'pop': pop, 'k': k, 'p': None if p is None else list(p), 'out': out})
            return out
        n = int(size)
        if p is None:
            t = None
        else:
            p = list(p)
            t = p[1]
        out = []
        for _ in range(n):
            v = e.fresh_int('tie')
            e.assume((v >= 0) & (v <= 1))
            if t is not None and not S.is_sym(t):
                if t == 0:
                    e.assume(v == 0)
                elif t == 1:
                    e.assume(v == 1)
            out.append(v)
        self.rec.tie_calls.append({'n': n, 'p': p, 'out': out})
        return out


class NpStub:
    def __init__(self, rec):
        self.random = NpRandom(rec)
        import numpy
        self._np = numpy

    def __getattr__(self, name):
        # anything else the code may use (asarray, zeros, ...) is real numpy
        return getattr(self._np, name)

    def arange(self, a, b=None):
        if b is None:
            a, b = 0, a
        return list(range(int(a), int(b)))

    def array(self, x):
        return list(x)

    def sum(self, xs):
        t = 0
        for x in xs:
            t = t + x
        return t if isinstance(t, S.SymReal) else S.SymReal(S._real(S.term_of(t)))


def install(gshared):
    """returns (recorder, restore)"""
    rec = Recorder()
    saved = (gshared.np, gshared.random, getattr(gshared, 'float', None), getattr(gshared, 'int', None))
    gshared.np = NpStub(rec)
    gshared.random = PyRandom(rec)
    gshared.float = S.sym_float
    gshared.int = S.sym_int

    def restore():
        gshared.np, gshared.random = saved[0], saved[1]
        for name, val in (('float', saved[2]), ('int', saved[3])):
            if val is None:
                if name in vars(gshared):
                    delattr(gshared, name)
            else:
                setattr(gshared, name, val)
    return rec, restore
