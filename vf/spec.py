"""Specification library (the oracle), written from the property statements.

An ``Inst`` is the abstract instance a file denotes.  All predicates/measures are
written once over a tiny algebra (``Z`` = z3 terms, ``P`` = plain Python), so the
same definition is used symbolically (quotas / matchings as z3 terms) and
concretely (replay, brute-force cross-check).  Nothing here imports the
repository.
"""
import itertools
import z3


# ---------------------------------------------------------------------------
# algebras
# ---------------------------------------------------------------------------
class Z:
    @staticmethod
    def And(xs):
        xs = list(xs)
        return z3.And(xs) if xs else z3.BoolVal(True)

    @staticmethod
    def Or(xs):
        xs = list(xs)
        return z3.Or(xs) if xs else z3.BoolVal(False)

    @staticmethod
    def Not(x):
        return z3.Not(x)

    @staticmethod
    def If(c, a, b):
        return z3.If(c, a, b)

    @staticmethod
    def Sum(xs):
        xs = list(xs)
        if not xs:
            return z3.IntVal(0)
        r = xs[0]
        for x in xs[1:]:
            r = r + x
        return r if z3.is_expr(r) else z3.IntVal(r)

    @staticmethod
    def b(v):
        return v if z3.is_expr(v) else z3.BoolVal(bool(v))


class P:
    @staticmethod
    def And(xs):
        return all(list(xs))

    @staticmethod
    def Or(xs):
        return any(list(xs))

    @staticmethod
    def Not(x):
        return not x

    @staticmethod
    def If(c, a, b):
        return a if c else b

    @staticmethod
    def Sum(xs):
        return sum(list(xs))

    @staticmethod
    def b(v):
        return bool(v)


# ---------------------------------------------------------------------------
# instance
# ---------------------------------------------------------------------------
class Inst:
    """na: 2 or 3.  prefs[s] / lprefs[l]: list of tie groups (lists of 1-based
    ids).  plec[p]: lecturer id of project p+1.  Numerics: ints or z3 terms."""

    def __init__(self, na, ns, np_, nl, prefs, plec, lprefs,
                 plq, puq, llq, lt, luq):
        self.na, self.ns, self.np, self.nl = na, ns, np_, nl
        self.prefs, self.plec, self.lprefs = prefs, plec, lprefs
        self.plq, self.puq, self.llq, self.lt, self.luq = plq, puq, llq, lt, luq

    @property
    def twosided(self):
        return self.lprefs is not None

    def pairs(self):
        """[(s, p, rank_student)] in list order, ids 1-based, dense ranks."""
        out = []
        for s, groups in enumerate(self.prefs):
            for r, g in enumerate(groups):
                for p in g:
                    out.append((s + 1, p, r + 1))
        return out

    def max_rank(self):
        return max([r for _, _, r in self.pairs()] or [0])

    def lec(self, p):
        return self.plec[p - 1]

    def lrank(self, l, s):
        """rank of student s in lecturer l's list (None when one-sided / absent)."""
        if self.lprefs is None:
            return None
        for r, g in enumerate(self.lprefs[l - 1]):
            if s in g:
                return r + 1
        return None

    def shape_key(self):
        return (self.na, self.ns, self.np, self.nl,
                tuple(tuple(tuple(g) for g in gs) for gs in self.prefs),
                tuple(self.plec),
                None if self.lprefs is None else
                tuple(tuple(tuple(g) for g in gs) for gs in self.lprefs))

    def with_numerics(self, plq, puq, llq, lt, luq):
        return Inst(self.na, self.ns, self.np, self.nl, self.prefs, self.plec,
                    self.lprefs, plq, puq, llq, lt, luq)

    def describe(self):
        return {'na': self.na, 'counts': [self.ns, self.np, self.nl],
                'prefs': self.prefs, 'plec': self.plec, 'lprefs': self.lprefs,
                'plq': [str(v) for v in self.plq], 'puq': [str(v) for v in self.puq],
                'llq': [str(v) for v in self.llq], 'lt': [str(v) for v in self.lt],
                'luq': [str(v) for v in self.luq]}


def groups_to_text(groups):
    toks = []
    for g in groups:
        if len(g) == 1:
            toks.append(str(g[0]))
        else:
            toks.append('(' + str(g[0]))
            toks.extend(str(e) for e in g[1:-1])
            toks.append(str(g[-1]) + ')')
    return toks


TRAILER2 = ('\ninstance generation parameters\nnumber_of_agents_type_1: 1\n'
            'number_of_agents_type_2: 1\n')


def inst_to_text(I, tok=str, sep=' ', colon=': ', trailer=True, file_numerics=None):
    """Independent writer for the documented format.  ``tok`` renders a numeric
    (may return a placeholder token).  For na == 2 the per-hospital columns are
    lower and upper quota (the lecturer numerics are derived by the reader)."""
    lines = []
    if I.na == 3:
        lines.append(sep.join([str(I.ns), str(I.np), str(I.nl)]))
    else:
        lines.append(sep.join([str(I.ns), str(I.np)]))
    for s in range(I.ns):
        lines.append(str(s + 1) + colon + sep.join(groups_to_text(I.prefs[s])))
    if I.na == 3:
        for p in range(I.np):
            lines.append(colon.join([str(p + 1), tok(I.plq[p]), tok(I.puq[p]),
                                     str(I.plec[p])]))
        for l in range(I.nl):
            row = colon.join([str(l + 1), tok(I.llq[l]), tok(I.lt[l]), tok(I.luq[l])])
            row += colon
            if I.lprefs is not None:
                row += sep.join(groups_to_text(I.lprefs[l]))
            lines.append(row)
    else:
        for p in range(I.np):
            row = colon.join([str(p + 1), tok(I.plq[p]), tok(I.puq[p])]) + colon
            if I.lprefs is not None:
                row += sep.join(groups_to_text(I.lprefs[p]))
            lines.append(row)
    text = '\n'.join(lines) + '\n'
    if trailer:
        text += TRAILER2
    return text


def _parse_groups(tokens, ent=int):
    """Independent reader of a tie-aware list: returns list of groups."""
    groups, cur = [], None
    for t in tokens:
        opens = t.startswith('(')
        closes = t.endswith(')')
        n = ent(t.strip('()'))
        if opens and not closes:
            cur = [n]
        elif closes and not opens:
            cur.append(n)
            groups.append(cur)
            cur = None
        elif cur is not None:
            cur.append(n)
        else:
            groups.append([n])
    if cur is not None:
        raise ValueError('unbalanced parenthesis')
    return groups


def parse_text(text, na, twopl, num=int, ent=int):
    """Independent reader of the documented file format -> Inst.
    ``num`` converts a numeric token (may map placeholders to terms)."""
    lines = text.split('\n')
    hdr = lines[0].split()
    ns, np_ = int(hdr[0]), int(hdr[1])
    nl = int(hdr[2]) if na == 3 else np_
    prefs = []
    for i in range(1, ns + 1):
        head, _, rest = lines[i].partition(':')
        if int(head.strip()) != i:
            raise ValueError('bad student line number')
        prefs.append(_parse_groups(rest.split(), ent))
    plq, puq, plec, llq, lt, luq = [], [], [], [], [], []
    lprefs = [] if twopl else None
    for j in range(1, np_ + 1):
        parts = [x.strip() for x in lines[ns + j].split(':')]
        if int(parts[0]) != j:
            raise ValueError('bad project line number')
        plq.append(num(parts[1]))
        puq.append(num(parts[2]))
        if na == 3:
            plec.append(int(parts[3]))
        else:
            plec.append(j)
            llq.append(plq[-1])
            lt.append(puq[-1])
            luq.append(puq[-1])
            if twopl:
                lprefs.append(_parse_groups(parts[3].split() if len(parts) > 3 else [], ent))
    if na == 3:
        for k in range(1, nl + 1):
            parts = [x.strip() for x in lines[ns + np_ + k].split(':')]
            if int(parts[0]) != k:
                raise ValueError('bad lecturer line number')
            llq.append(num(parts[1]))
            lt.append(num(parts[2]))
            luq.append(num(parts[3]))
            if twopl:
                lprefs.append(_parse_groups(parts[4].split() if len(parts) > 4 else [], ent))
    return Inst(na, ns, np_, nl, prefs, plec, lprefs, plq, puq, llq, lt, luq)


# ---------------------------------------------------------------------------
# matchings: x maps (s, p) -> 0/1 value (z3 Int term or python int)
# ---------------------------------------------------------------------------
def loads(I, x, A):
    pl = [A.Sum(x[(s, p)] for (s, p, _) in I.pairs() if p == j + 1) for j in range(I.np)]
    ll = [A.Sum(x[(s, p)] for (s, p, _) in I.pairs() if I.lec(p) == k + 1)
          for k in range(I.nl)]
    return pl, ll


def valid(I, x, pc, A):
    """Validity of the 0/1 vector x (C01): <=1 project per student, project load
    within [lq, uq] (or 0 when closures are allowed), lecturer load in [lq, uq]."""
    cs = []
    for (s, p, _) in I.pairs():
        cs.append(A.Or([x[(s, p)] == 0, x[(s, p)] == 1]))
    for s in range(1, I.ns + 1):
        cs.append(A.Sum(x[(s2, p)] for (s2, p, _) in I.pairs() if s2 == s) <= 1)
    pl, ll = loads(I, x, A)
    for j in range(I.np):
        inq = A.And([A.b(I.plq[j] <= pl[j]), A.b(pl[j] <= I.puq[j])])
        cs.append(A.Or([A.b(pl[j] == 0), inq]) if pc else inq)
    for k in range(I.nl):
        cs.append(A.And([A.b(I.llq[k] <= ll[k]), A.b(ll[k] <= I.luq[k])]))
    return A.And(cs)


def blocks(I, x, s, p, A):
    """(s, p) blocks x under the SPA-STL definition (C05 / C06)."""
    pr = {(s2, p2): r for (s2, p2, r) in I.pairs()}
    r_sp = pr[(s, p)]
    l = I.lec(p)
    pl, ll = loads(I, x, A)
    # 2: s unassigned or strictly prefers p to M(s)
    c2 = A.Sum(x[(s, p2)] for (s2, p2, r2) in I.pairs() if s2 == s and r2 <= r_sp) == 0
    p_under = A.b(pl[p - 1] < I.puq[p - 1])
    l_under = A.b(ll[l - 1] < I.luq[l - 1])
    rl_s = I.lrank(l, s)
    # s already supervised by l
    s_in_l = A.Sum(x[(s, p2)] for (s2, p2, _) in I.pairs()
                   if s2 == s and I.lec(p2) == l) >= 1
    # l strictly prefers s to its worst assignee
    worse_in_l = A.Or([x[(s2, p2)] == 1 for (s2, p2, _) in I.pairs()
                       if I.lec(p2) == l and I.lrank(l, s2) > rl_s])
    worse_in_p = A.Or([x[(s2, p2)] == 1 for (s2, p2, _) in I.pairs()
                       if p2 == p and I.lrank(l, s2) > rl_s])
    c3a = A.And([p_under, l_under])
    c3b = A.And([p_under, A.Not(l_under), A.Or([A.b(s_in_l), worse_in_l])])
    c3c = A.And([A.Not(p_under), worse_in_p])
    return A.And([A.b(c2), A.Or([c3a, c3b, c3c])])


def stable(I, x, A):
    return A.Not(A.Or([blocks(I, x, s, p, A) for (s, p, _) in I.pairs()]))


def feasible(I, x, pc, stab, A):
    cs = [valid(I, x, pc, A)]
    if stab:
        cs.append(stable(I, x, A))
    return A.And(cs)


# ---------------------------------------------------------------------------
# measures
# ---------------------------------------------------------------------------
def size(I, x, A):
    return A.Sum(x[(s, p)] for (s, p, _) in I.pairs())


def profile(I, x, A):
    R = I.max_rank()
    return [A.Sum(x[(s, p)] for (s, p, r) in I.pairs() if r == k) for k in range(1, R + 1)]


def cost(I, x, A, sq=False):
    e = 2 if sq else 1
    cs = A.Sum(x[(s, p)] * (r ** e) for (s, p, r) in I.pairs())
    if I.twosided:
        cl = A.Sum(x[(s, p)] * (I.lrank(I.lec(p), s) ** e) for (s, p, _) in I.pairs())
    else:
        cl = A.Sum([])
    return cs, cl


def weighted_cost(I, x, A, y, zz, sq=False):
    """y * (student cost) + zz * (lecturer cost), written so that it stays LINEAR when the weights are
    symbolic: sum over pairs of  If(x = 1, y * r_s + zz * r_l, 0)"""
    e = 2 if sq else 1
    terms = []
    for (s, p, r) in I.pairs():
        w = (r ** e) * y
        if I.twosided:
            w = w + (I.lrank(I.lec(p), s) ** e) * zz
        terms.append(A.If(A.b(x[(s, p)] == 1), w, 0))
    return A.Sum(terms)


def degree(I, x, A):
    d = 0
    for (s, p, r) in I.pairs():
        d = A.If(A.And([A.b(x[(s, p)] == 1), A.b(d < r)]), r, d)
    return d


def deviations(I, x, A):
    _, ll = loads(I, x, A)
    out = []
    for k in range(I.nl):
        d = ll[k] - I.lt[k]
        out.append(A.If(A.b(d >= 0), d, -d))
    return out


def maxdev(I, x, A):
    m = 0
    for d in deviations(I, x, A):
        m = A.If(A.b(d > m), d, m)
    return m


def sumdev(I, x, A):
    return A.Sum(deviations(I, x, A))


# criterion keys: tuples to be lexicographically MAXIMISED
CRITERIA = ['maxsize', 'minsize', 'gen', 'gre', 'mincost', 'minsqcost', 'lmb',
            'lsb', 'mincostlsb']


def crit_key(I, x, crit, args, A):
    """Documented meaning of a criterion with its optional extra arguments
    (README defaults)."""
    R = I.max_rank()
    if crit == 'maxsize':
        return [size(I, x, A)]
    if crit == 'minsize':
        return [-size(I, x, A)]
    if crit == 'gen':
        c = args[0] if len(args) >= 1 else 1
        prof = profile(I, x, A)
        return [-prof[r - 1] for r in range(R, max(c, 1) - 1, -1)]
    if crit == 'gre':
        c = args[0] if len(args) >= 1 else R
        prof = profile(I, x, A)
        return [prof[r - 1] for r in range(1, min(c, R) + 1)]
    if crit in ('mincost', 'minsqcost'):
        y = args[0] if len(args) >= 1 else 1
        zz = args[1] if len(args) >= 2 else 0
        return [-weighted_cost(I, x, A, y, zz, sq=(crit == 'minsqcost'))]
    if crit == 'lmb':
        return [-maxdev(I, x, A)]
    if crit == 'lsb':
        return [-sumdev(I, x, A)]
    if crit == 'mincostlsb':
        y = args[0] if len(args) >= 1 else 1
        zz = args[1] if len(args) >= 2 else 1
        return [-(weighted_cost(I, x, A, y, 0) + sumdev(I, x, A) * zz)]
    raise ValueError(crit)


def seq_key(I, x, seq, A):
    k = []
    for crit, args in seq:
        k.extend(crit_key(I, x, crit, args, A))
    return k


def lex_gt(a, b, A):
    """a lexicographically greater than b."""
    res = A.b(False)
    for ai, bi in reversed(list(zip(a, b))):
        res = A.Or([A.b(ai > bi), A.And([A.b(ai == bi), res])])
    return res


def lex_eq(a, b, A):
    return A.And([A.b(ai == bi) for ai, bi in zip(a, b)])


# ---------------------------------------------------------------------------
# concrete helpers (replay / cross-check)
# ---------------------------------------------------------------------------
def all_assignments(I):
    """Every way of giving each student one project of its list or none:
    yields dict (s, p) -> 0/1."""
    per = []
    for s in range(I.ns):
        ps = [p for g in I.prefs[s] for p in g]
        per.append([0] + ps)
    for choice in itertools.product(*per):
        x = {(s, p): 0 for (s, p, _) in I.pairs()}
        for s, p in enumerate(choice):
            if p:
                x[(s + 1, p)] = 1
        yield choice, x


def feasible_set(I, pc, stab):
    return [(c, x) for c, x in all_assignments(I) if feasible(I, x, pc, stab, P)]


def best_key(I, pc, stab, seq):
    fs = feasible_set(I, pc, stab)
    if not fs:
        return None
    return max(tuple(seq_key(I, x, seq, P)) for _, x in fs)


def x_from_matching_line(I, nums):
    """x from the printed matching (student i's project is the i-th number)."""
    x = {(s, p): 0 for (s, p, _) in I.pairs()}
    for s, p in enumerate(nums):
        if p:
            if (s + 1, p) not in x:
                return None
            x[(s + 1, p)] = 1
    return x


def zvars(I, prefix):
    """fresh 0/1 z3 Int variable per acceptable pair + its domain constraint."""
    x = {(s, p): z3.Int('%s_%d_%d' % (prefix, s, p)) for (s, p, _) in I.pairs()}
    dom = [z3.Or(v == 0, v == 1) for v in x.values()]
    return x, dom
