"""Enumeration / sampling of instance *shapes* (who ranks whom, in which tie
groups, which lecturer offers which project).  Numerics are left to the solver."""
import itertools
import random

from .spec import Inst


def weak_orders(items):
    """All ordered set partitions of items (weak orders); groups sorted."""
    items = list(items)
    if not items:
        yield []
        return
    n = len(items)
    for k in range(1, n + 1):
        for first in itertools.combinations(items, k):
            rest = [i for i in items if i not in first]
            for tail in weak_orders(rest):
                yield [list(first)] + tail


def pref_lists(n2, minlen=1, maxlen=None):
    """All tie-aware lists over 1..n2 with minlen <= length <= maxlen."""
    maxlen = n2 if maxlen is None else maxlen
    out = []
    for k in range(minlen, maxlen + 1):
        for sub in itertools.combinations(range(1, n2 + 1), k):
            out.extend(weak_orders(sub))
    return out


def lecturer_students(prefs, plec, nl):
    """students that rank at least one project of each lecturer"""
    res = [[] for _ in range(nl)]
    for s, groups in enumerate(prefs):
        for g in groups:
            for p in g:
                l = plec[p - 1]
                if (s + 1) not in res[l - 1]:
                    res[l - 1].append(s + 1)
    return [sorted(r) for r in res]


def mk(na, ns, np_, nl, prefs, plec, lprefs):
    return Inst(na, ns, np_, nl, prefs, plec, lprefs, None, None, None, None, None)


def plec_maps(np_, nl):
    """project -> lecturer maps up to lecturer relabelling (first occurrence
    order), lecturers without project allowed."""
    seen = set()
    for m in itertools.product(range(1, nl + 1), repeat=np_):
        # canonical under relabelling: first occurrences increasing
        order = []
        for l in m:
            if l not in order:
                order.append(l)
        canon = tuple(order.index(l) + 1 for l in m)
        if canon in seen:
            continue
        seen.add(canon)
        yield list(canon)


def enumerate_shapes(na, ns, np_, nl, twosided, minlen=1):
    pls = pref_lists(np_, minlen)
    maps = list(plec_maps(np_, nl)) if na == 3 else [list(range(1, np_ + 1))]
    for prefs in itertools.product(pls, repeat=ns):
        prefs = [[list(g) for g in gs] for gs in prefs]
        for plec in maps:
            nl_eff = nl if na == 3 else np_
            if not twosided:
                yield mk(na, ns, np_, nl_eff, prefs, plec, None)
                continue
            studs = lecturer_students(prefs, plec, nl_eff)
            for lp in itertools.product(*[list(weak_orders(s)) for s in studs]):
                yield mk(na, ns, np_, nl_eff, prefs, plec, [list(g) for g in lp])


def count_shapes(na, ns, np_, nl, twosided, minlen=1):
    return sum(1 for _ in enumerate_shapes(na, ns, np_, nl, twosided, minlen))


def random_weak_order(rng, items, tie_p):
    items = list(items)
    rng.shuffle(items)
    groups = []
    for it in items:
        if groups and rng.random() < tie_p:
            groups[-1].append(it)
        else:
            groups.append([it])
    return groups


def random_shape(rng, na, ns, np_, nl, twosided, tie_p=0.35, minlen=1):
    prefs = []
    for _ in range(ns):
        k = rng.randint(minlen, np_)
        sub = rng.sample(range(1, np_ + 1), k)
        prefs.append(random_weak_order(rng, sub, tie_p))
    if na == 3:
        plec = [rng.randint(1, nl) for _ in range(np_)]
    else:
        plec = list(range(1, np_ + 1))
        nl = np_
    lprefs = None
    if twosided:
        studs = lecturer_students(prefs, plec, nl)
        lprefs = [random_weak_order(rng, s, tie_p) for s in studs]
    return mk(na, ns, np_, nl, prefs, plec, lprefs)


def corner_shapes(twosided_only=False):
    """Hand-picked shapes that are always included."""
    out = []

    def add(na, ns, np_, nl, prefs, plec, lprefs):
        out.append(mk(na, ns, np_, nl, prefs, plec, lprefs))
        if not twosided_only and lprefs is not None:
            out.append(mk(na, ns, np_, nl, prefs, plec, None))

    # 1x1
    add(3, 1, 1, 1, [[[1]]], [1], [[[1]]])
    add(2, 1, 1, 1, [[[1]]], [1], [[[1]]])
    # more lecturers than students; a lecturer without project; a project nobody ranks
    add(3, 1, 3, 3, [[[2], [1]]], [1, 2, 3], [[[1]], [[1]], []])
    add(3, 1, 2, 3, [[[1, 2]]], [1, 2], [[[1]], [[1]], []])
    # lecturer with several projects, student ranking two of them around another lecturer's project
    add(3, 2, 3, 2, [[[1], [3], [2]], [[2], [1]]], [1, 1, 2], [[[2], [1]], [[1]]])
    add(3, 3, 3, 2, [[[1, 2], [3]], [[2], [1]], [[3, 1]]], [1, 1, 2], [[[1, 2], [3]], [[3], [1]]])
    # ties at start / middle / end / whole list, both sides; max rank < ns and > ns
    add(3, 3, 2, 1, [[[1, 2]], [[1, 2]], [[2], [1]]], [1, 1], [[[1, 2, 3]]])
    add(3, 1, 3, 2, [[[1], [2], [3]]], [1, 2, 2], [[[1]], [[1]]])
    add(2, 3, 2, 2, [[[1], [2]], [[1, 2]], [[2]]], [1, 2], [[[1, 2]], [[3], [1, 2]]])
    add(2, 2, 3, 3, [[[3], [1, 2]], [[1, 3], [2]]], [1, 2, 3], [[[2, 1]], [[1], [2]], [[1, 2]]])
    add(2, 3, 3, 3, [[[1], [2, 3]], [[1, 2], [3]], [[1], [2], [3]]], [1, 2, 3],
        [[[2], [1, 3]], [[1, 2, 3]], [[3], [2], [1]]])
    add(3, 4, 2, 2, [[[1], [2]], [[1], [2]], [[2], [1]], [[1, 2]]], [1, 2],
        [[[1], [2, 3], [4]], [[4, 3], [2], [1]]])
    # identifiers with two digits: 12 projects / 11 students; ties opened and closed by two-digit ids; the pairs
    # (1,12) and (11,2) (names that collide without a separator)
    add(3, 3, 12, 3, [[[12, 3], [10]], [[2], [11, 12]], [[10], [1]]], [1, 2, 3, 1, 2, 3, 1, 2, 3, 1, 2, 3],
        [[[2], [1, 3]], [[2]], [[1, 2]]])
    add(2, 11, 12, 12, [[[12], [1]]] + [[[1]] for _ in range(9)] + [[[2], [12]]], list(range(1, 13)),
        [[[11, 10], [1], [2, 3, 4, 5, 6, 7, 8, 9]], [[11]]] + [[] for _ in range(9)] + [[[1], [11]]])
    # a student who finds no project acceptable (empty first-side list), first and last in the file
    add(3, 3, 2, 2, [[], [[1], [2]], [[2, 1]]], [1, 2], [[[3], [2]], [[2, 3]]])
    add(2, 2, 2, 2, [[[2], [1]], []], [1, 2], [[[1]], [[1]]])
    # ties of four entries on both sides (a reader that loses the tie state after the second or third member)
    add(3, 4, 4, 2, [[[1, 2, 3, 4]], [[4], [1]], [[2]], [[3, 1]]], [1, 1, 2, 2], [[[1, 2, 3, 4]], [[4], [1, 2]]])
    if twosided_only:
        out = [s for s in out if s.lprefs is not None]
    return out


def shape_set(tier, seed, twosided=None, quick_n=40, thorough_n=400, na_filter=None):
    """The shape set of a tier: corners + exhaustive tiny + seeded sample of
    mid/big sizes.  twosided: None = both, True / False = only that kind."""
    rng = random.Random(seed * 7919 + (1 if tier == 'quick' else 2))
    kinds = [True, False] if twosided is None else [twosided]
    out = []
    for sh in corner_shapes():
        if (sh.lprefs is not None) in kinds:
            out.append(sh)
    n = quick_n if tier == 'quick' else thorough_n
    sizes_small = [(3, 1, 2, 2), (3, 2, 2, 1), (3, 2, 2, 2), (2, 2, 2, 2), (2, 1, 2, 2), (3, 2, 1, 1)]
    sizes_mid = [(3, 3, 2, 2), (3, 2, 3, 2), (3, 2, 3, 3), (3, 3, 2, 1), (3, 1, 3, 3),
                 (3, 3, 1, 1), (2, 3, 2, 2), (2, 2, 3, 3), (2, 3, 3, 3)]
    sizes_big = [(3, 3, 3, 2), (3, 3, 3, 3), (3, 4, 3, 2), (3, 4, 2, 2), (2, 4, 3, 3)]
    plan = [(sizes_small, n // 2), (sizes_mid, n // 3), (sizes_big, n - n // 2 - n // 3)]
    for sizes, cnt in plan:
        for i in range(cnt):
            na, ns, np_, nl = sizes[i % len(sizes)]
            ts = kinds[rng.randrange(len(kinds))]
            out.append(random_shape(rng, na, ns, np_, nl, ts))
    if na_filter is not None:
        out = [s for s in out if s.na == na_filter]
    # de-duplicate
    seen, res = set(), []
    for sh in out:
        k = sh.shape_key()
        if k not in seen:
            seen.add(k)
            res.append(sh)
    return res
