"""Engine E1: the real pipeline on real PuLP objects with a z3 back end, and
translation validation of the recording stand-in (vf/pulpshim.py) against it.

Both a live ``pulp.LpProblem`` and a shim ``Snapshot`` are reduced to the same
canonical, name-based description; the sequences of problems handed to solve by
the real code under real PuLP and under the stand-in (numerics pinned to the
same concrete values) must be identical."""
import os
import re
import shutil
import tempfile

import z3

from . import repo, spec
from . import pulpshim as shim
from . import sym as S


def _num(c):
    if isinstance(c, (S.SymInt, S.SymReal)):
        t = z3.simplify(c.t)
        if z3.is_int_value(t):
            return t.as_long()
        if z3.is_rational_value(t):
            return t.numerator_as_long() / t.denominator_as_long()
        raise ValueError('symbolic coefficient in a pinned run: %s' % t)
    if isinstance(c, float) and c == int(c):
        return int(c)
    return c


def _cname(n):
    return re.sub(r'^_C\d+$', '_C', n)


def canon_real(prob):
    import pulp
    vs = {}
    cons = []
    for name, c in prob.constraints.items():
        terms = {v.name: _num(k) for v, k in c.items() if k != 0}
        cons.append((_cname(name), tuple(sorted(terms.items())), _num(c.constant), c.sense))
        for v in c.keys():
            vs[v.name] = v
    obj = prob.objective
    oterms = {}
    if obj is not None:
        if isinstance(obj, pulp.LpVariable):
            oterms = {obj.name: 1}
            vs[obj.name] = obj
        else:
            oterms = {v.name: _num(k) for v, k in obj.items() if k != 0}
            for v in obj.keys():
                vs[v.name] = v
    vdesc = {n: (None if v.lowBound is None else _num(v.lowBound), None if v.upBound is None else _num(v.upBound), v.cat) for n, v in vs.items()}
    return {'vars': vdesc, 'cons': sorted(cons), 'obj': tuple(sorted(oterms.items())), 'sense': prob.sense}, vs


def canon_shim(snap):
    vs = {v.name: v for v in snap.variables}
    cons = []
    for name, c in snap.constraints:
        terms = {v.name: _num(k) for v, k in c.terms.items() if _num(k) != 0}
        cons.append((_cname(name), tuple(sorted(terms.items())), _num(c.constant), c.sense))
    oterms = {}
    if snap.objective is not None:
        oterms = {v.name: _num(k) for v, k in snap.objective.terms.items() if _num(k) != 0}
    used = set()
    for _, t, _, _ in cons:
        used.update(n for n, _ in t)
    used.update(oterms)
    vdesc = {n: (None if v.lowBound is None else _num(v.lowBound), None if v.upBound is None else _num(v.upBound), v.cat)
             for n, v in vs.items() if n in used}
    return {'vars': vdesc, 'cons': sorted(cons), 'obj': tuple(sorted(oterms.items())), 'sense': snap.sense}, vs


def z3_solve(canon):
    """optimum of a canonical problem: (status, {var: value})"""
    zv = {}
    opt = z3.Optimize()
    opt.set('timeout', 60000)
    for n, (lo, hi, cat) in canon['vars'].items():
        zv[n] = z3.Int('v!' + n) if cat == 'Integer' else z3.Real('v!' + n)
        if lo is not None:
            opt.add(zv[n] >= lo)
        if hi is not None:
            opt.add(zv[n] <= hi)
    for _, terms, const, sense in canon['cons']:
        e = z3.Sum([k * zv[n] for n, k in terms]) + const if terms else z3.RealVal(const) if isinstance(const, float) else z3.IntVal(const)
        opt.add(e <= 0 if sense == -1 else (e >= 0 if sense == 1 else e == 0))
    if canon['obj']:
        o = z3.Sum([k * zv[n] for n, k in canon['obj']])
        (opt.maximize if canon['sense'] == -1 else opt.minimize)(o)
    r = opt.check()
    if r == z3.unsat:
        return -1, {}
    if r != z3.sat:
        raise RuntimeError('z3 back end: unknown')
    m = opt.model()
    vals = {}
    for n, t in zv.items():
        x = m.eval(t, model_completion=True)
        vals[n] = x.as_long() if z3.is_int_value(x) else x.numerator_as_long() / x.denominator_as_long()
    return 1, vals


def run_real(I, flags, argv_seq, getter='get_results'):
    """the unmodified pipeline on real PuLP objects; solve answered by z3"""
    ns = repo.load('real')
    import pulp
    log = []
    orig = pulp.LpProblem.solve

    def solve(self, solver=None, **kw):
        self.checkDuplicateVars()
        c, vs = canon_real(self)
        st, vals = z3_solve(c)
        log.append(c)
        if st == 1:
            for n, v in vs.items():
                v.varValue = float(vals[n])
        self.status = st
        return st
    d = tempfile.mkdtemp(prefix='vf_e1_')
    out = {'exc': None, 'text': None, 'problems': log}
    try:
        path = os.path.join(d, 'inst.txt')
        with open(path, 'w') as f:
            f.write(spec.inst_to_text(I))
        argv = ['-f', path, '-na', str(I.na)] + ['-' + f_ for f_ in ('twopl', 'pc', 'stab') if f_ in flags] + list(argv_seq)
        pulp.LpProblem.solve = solve
        try:
            s = ns.solver.Solver(argv)
            s.solve()
            out['text'] = getattr(s, getter)()
        except Exception as e:  # noqa
            out['exc'] = '%s: %s' % (type(e).__name__, e)
    finally:
        pulp.LpProblem.solve = orig
        shutil.rmtree(d, ignore_errors=True)
    return out


def shim_hook(log):
    def factory(run):
        def hook(prob, snap, solver):
            c, vs = canon_shim(snap)
            st, vals = z3_solve(c)
            log.append(c)
            if st == 1:
                for n, v in vs.items():
                    if n in vals:
                        v.varValue = float(vals[n]) if False else vals[n]
            run.snaps.append(snap)
            return st
        return hook
    return factory


def run_shim(I, flags, seq_argv):
    from . import e2
    log = []
    out = {'exc': None, 'problems': log}

    def body():
        return e2.run_e2(I, set(flags), [], argv_seq=list(seq_argv), hook_factory=shim_hook(log), numerics=(I, [], []))
    paths = S.Engine(max_paths=8).explore(body)
    if len(paths) != 1:
        out['exc'] = 'pinned run forked into %d paths' % len(paths)
    elif paths[0].exc is not None:
        out['exc'] = '%s: %s' % (type(paths[0].exc).__name__, paths[0].exc)
    return out


def diff(a, b):
    """first difference between two canonical problem sequences, or None"""
    if len(a) != len(b):
        return 'number of solves: real %d, stand-in %d' % (len(a), len(b))
    for k, (x, y) in enumerate(zip(a, b)):
        for key in ('sense', 'obj', 'vars', 'cons'):
            if x[key] != y[key]:
                if key == 'cons':
                    only_r = [c for c in x['cons'] if c not in y['cons']][:2]
                    only_s = [c for c in y['cons'] if c not in x['cons']][:2]
                    return 'solve #%d constraints differ: only real %s / only stand-in %s' % (k + 1, only_r, only_s)
                if key == 'vars':
                    dv = {n: (x['vars'].get(n), y['vars'].get(n)) for n in set(x['vars']) | set(y['vars']) if x['vars'].get(n) != y['vars'].get(n)}
                    return 'solve #%d variables differ (real, stand-in): %s' % (k + 1, dict(list(dv.items())[:3]))
                return 'solve #%d %s differs: real %s / stand-in %s' % (k + 1, key, x[key], y[key])
    return None
