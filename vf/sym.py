"""pathsym - symbolic execution of real Python functions by operator overloading.

SymInt / SymReal / SymBool wrap z3 terms.  ``bool(SymBool)`` asks the engine,
which forks: depth-first exploration by re-execution with a decision prefix.
Both sides of a branch are checked for feasibility under the path condition.

No silent concretisation: ``__index__`` / ``__hash__`` enumerate every feasible
value under the path condition (each value is a fork, capped; exceeding the cap
aborts the whole exploration as inconclusive).  ``str(sym)`` yields a unique
placeholder token registered with the engine, so symbolic numbers survive
string formatting, file writing and re-parsing (see ``sym_int``).
"""
import time
import z3


class Inconclusive(Exception):
    """The exploration cannot be completed soundly (budget, unsupported op,
    solver 'unknown').  Never counted as success."""


class _PathAbort(BaseException):
    """Internal control flow; BaseException so code under test cannot catch it."""


_ENGINE = None


def engine():
    if _ENGINE is None:
        raise RuntimeError('no pathsym engine active')
    return _ENGINE


class Path:
    def __init__(self, decisions, pc, result, exc, notes, tokens):
        self.decisions = decisions
        self.pc = pc              # list of z3 BoolRef
        self.result = result
        self.exc = exc            # BaseException instance or None
        self.notes = notes        # whatever the harness stashed via engine().notes
        self.tokens = tokens      # placeholder token -> z3 term

    def pc_expr(self):
        return z3.And(self.pc) if self.pc else z3.BoolVal(True)


class Engine:
    def __init__(self, max_paths=200000, timeout=None, enum_cap=64,
                 solver_timeout_ms=60000):
        self.max_paths = max_paths
        self.timeout = timeout
        self.enum_cap = enum_cap
        self.solver_timeout_ms = solver_timeout_ms
        self.fork_limit = None
        self.stats = {'paths': 0, 'decisions': 0, 'solver_queries': 0,
                      'solver_time': 0.0, 'forks': 0}

    # -- per-execution state -------------------------------------------------
    def _reset(self, prefix):
        self.prefix = prefix
        self.pos = 0
        self.decisions = []
        self.pc = []
        self.notes = {}
        self.tokens = {}
        self._tok_of = {}
        self._fresh = {}
        self.solver = z3.Solver()
        self.solver.set('timeout', self.solver_timeout_ms)

    def _check(self, *extra):
        t0 = time.time()
        r = self.solver.check(*extra)
        self.stats['solver_queries'] += 1
        self.stats['solver_time'] += time.time() - t0
        if r == z3.unknown:
            raise Inconclusive('solver answered unknown on a path-feasibility query')
        return r == z3.sat

    def assume(self, cond):
        """Add an assumption to the path condition (infeasible -> path dropped)."""
        cond = _tobool_term(cond)
        self.pc.append(cond)
        self.solver.add(cond)
        if not self._check():
            raise _PathAbort()

    def fresh_int(self, name='v'):
        n = self._fresh.get(name, 0)
        self._fresh[name] = n + 1
        return SymInt(z3.Int('%s!%d' % (name, n)))

    def fresh_real(self, name='r'):
        n = self._fresh.get(name, 0)
        self._fresh[name] = n + 1
        return SymReal(z3.Real('%s!%d' % (name, n)))

    def fresh_bool(self, name='b'):
        n = self._fresh.get(name, 0)
        self._fresh[name] = n + 1
        return SymBool(z3.Bool('%s!%d' % (name, n)))

    def token(self, term):
        key = term.get_id()
        tok = self._tok_of.get(key)
        if tok is None:
            tok = '@S%d@' % len(self.tokens)
            self._tok_of[key] = tok
            self.tokens[tok] = term
        return tok

    def branch(self, cond):
        cond = z3.simplify(cond)
        if z3.is_true(cond):
            return True
        if z3.is_false(cond):
            return False
        self.stats['decisions'] += 1
        if self.pos < len(self.prefix):
            kind, d = self.prefix[self.pos][0], self.prefix[self.pos][-1]
            if kind != 'b':
                raise Inconclusive('non-deterministic re-execution (decision kind)')
            self.pos += 1
        else:
            can_t = self._check(cond)
            can_f = self._check(z3.Not(cond))
            if can_t and can_f:
                self.stats['forks'] += 1
                if self.fork_limit is None or len(self.decisions) < self.fork_limit:
                    self.worklist.append(self.decisions + [('b', False)])
                d = True
            elif can_t:
                d = True
            elif can_f:
                d = False
            else:
                raise _PathAbort()
        self.decisions.append(('b', d))
        c = cond if d else z3.Not(cond)
        self.pc.append(c)
        self.solver.add(c)
        return d

    def concretize(self, term):
        """Enumerate every feasible integer value of term (one fork per value)."""
        term = z3.simplify(term)
        if z3.is_int_value(term):
            return term.as_long()
        tries = 0
        while True:
            tries += 1
            if tries > self.enum_cap:
                raise Inconclusive('value enumeration exceeded cap %d for %s'
                                   % (self.enum_cap, term))
            self.stats['decisions'] += 1
            if self.pos < len(self.prefix):
                ent = self.prefix[self.pos]
                if ent[0] != 'v':
                    raise Inconclusive('non-deterministic re-execution (value)')
                self.pos += 1
                v, d = ent[1], ent[2]
            else:
                if not self._check():
                    raise _PathAbort()
                v = self.solver.model().eval(term, model_completion=True).as_long()
                if self._check(term != v):
                    self.stats['forks'] += 1
                    self.worklist.append(self.decisions + [('v', v, False)])
                d = True
            self.decisions.append(('v', v, d))
            c = (term == v) if d else (term != v)
            self.pc.append(c)
            self.solver.add(c)
            if d:
                return v

    # -- driver --------------------------------------------------------------
    def frontier(self, fn, depth):
        """Decision prefixes of length <= depth that partition the path space:
        exploring each with explore(fn, prefixes=[p]) covers every path once."""
        self.fork_limit = depth
        try:
            paths = self.explore(fn)
        finally:
            self.fork_limit = None
        out, seen = [], set()
        for p in paths:
            pre = tuple(p.decisions[:depth])
            if pre not in seen:
                seen.add(pre)
                out.append(list(pre))
        return out

    def explore(self, fn, prefixes=None):
        """Run fn() on every feasible path (extending the given decision
        prefixes, if any).  Returns list of Path."""
        global _ENGINE
        t_start = time.time()
        self.worklist = [list(p) for p in prefixes] if prefixes is not None else [[]]
        paths = []
        prev = _ENGINE
        _ENGINE = self
        try:
            while self.worklist:
                if self.timeout is not None and time.time() - t_start > self.timeout:
                    ex = Inconclusive('exploration time budget exhausted')
                    ex.paths = paths
                    raise ex
                if len(paths) >= self.max_paths:
                    ex = Inconclusive('path budget %d exhausted' % self.max_paths)
                    ex.paths = paths          # the paths explored so far (still valid counterexample material)
                    raise ex
                prefix = self.worklist.pop()
                self._reset(prefix)
                result, exc = None, None
                try:
                    result = fn()
                except _PathAbort:
                    self.stats['aborted'] = self.stats.get('aborted', 0) + 1
                    continue
                except Inconclusive:
                    raise
                except BaseException as e:  # SystemExit included
                    if isinstance(e, (KeyboardInterrupt, MemoryError)):
                        raise
                    exc = e
                paths.append(Path(list(self.decisions), list(self.pc), result,
                                  exc, self.notes, dict(self.tokens)))
                self.stats['paths'] += 1
        finally:
            _ENGINE = prev
        return paths


# ---------------------------------------------------------------------------
# symbolic values
# ---------------------------------------------------------------------------

def _term(x):
    """z3 arithmetic term of a python / symbolic number, or None."""
    if isinstance(x, (SymInt, SymReal)):
        return x.t
    if isinstance(x, SymBool):
        return z3.If(x.t, z3.IntVal(1), z3.IntVal(0))
    if isinstance(x, bool):
        return z3.IntVal(int(x))
    if isinstance(x, int):
        return z3.IntVal(x)
    if isinstance(x, float):
        return z3.RealVal(repr(x)) if x != int(x) else z3.RealVal(int(x))
    try:
        import numpy as _np
        if isinstance(x, _np.integer):
            return z3.IntVal(int(x))
        if isinstance(x, _np.floating):
            return z3.RealVal(repr(float(x)))
    except ImportError:
        pass
    return None


def _wrap(t):
    t = z3.simplify(t)
    if z3.is_bool(t):
        return SymBool(t)
    if t.sort() == z3.IntSort():
        return SymInt(t)
    return SymReal(t)


def _tobool_term(c):
    if isinstance(c, SymBool):
        return c.t
    if isinstance(c, bool):
        return z3.BoolVal(c)
    if z3.is_expr(c):
        return c
    raise TypeError('not a condition: %r' % (c,))


def _floordiv(a, b):
    # python floor division on ints; z3 div is euclidean (floor for b > 0)
    if z3.is_int_value(z3.simplify(b)) and z3.simplify(b).as_long() > 0:
        return a / b
    return z3.If(b > 0, a / b, -((-a) / (-b)) - z3.If((-a) % (-b) != 0, 1, 0))


class _SymNum:
    __slots__ = ('t',)

    def __init__(self, t):
        self.t = t

    def _bin(self, other, f, rev=False):
        o = _term(other)
        if o is None:
            return NotImplemented
        a, b = (o, self.t) if rev else (self.t, o)
        return _wrap(f(a, b))

    def __add__(self, o): return self._bin(o, lambda a, b: a + b)
    def __radd__(self, o): return self._bin(o, lambda a, b: a + b, True)
    def __sub__(self, o): return self._bin(o, lambda a, b: a - b)
    def __rsub__(self, o): return self._bin(o, lambda a, b: a - b, True)
    def __mul__(self, o): return self._bin(o, lambda a, b: a * b)
    def __rmul__(self, o): return self._bin(o, lambda a, b: a * b, True)
    def __neg__(self): return _wrap(-self.t)
    def __pos__(self): return self
    def __abs__(self): return _wrap(z3.If(self.t >= 0, self.t, -self.t))

    def __truediv__(self, o):
        return self._bin(o, lambda a, b: z3.ToReal(a) / z3.ToReal(b) if a.sort() == z3.IntSort() and b.sort() == z3.IntSort() else _real(a) / _real(b))

    def __rtruediv__(self, o):
        if isinstance(o, (list, tuple)):
            # numpy semantics of  list / scalar : elementwise
            return [e / self for e in o]
        return self._bin(o, lambda a, b: _real(a) / _real(b), True)

    def __pow__(self, o):
        if isinstance(o, int) and not isinstance(o, bool) and 0 <= o <= 8:
            r = z3.IntVal(1) if self.t.sort() == z3.IntSort() else z3.RealVal(1)
            for _ in range(o):
                r = r * self.t
            return _wrap(r)
        return NotImplemented

    def _cmp(self, o, f):
        t = _term(o)
        if t is None:
            return NotImplemented
        return SymBool(z3.simplify(f(self.t, t)))

    def __lt__(self, o): return self._cmp(o, lambda a, b: a < b)
    def __le__(self, o): return self._cmp(o, lambda a, b: a <= b)
    def __gt__(self, o): return self._cmp(o, lambda a, b: a > b)
    def __ge__(self, o): return self._cmp(o, lambda a, b: a >= b)

    def __eq__(self, o):
        t = _term(o)
        if t is None:
            return False
        return SymBool(z3.simplify(self.t == t))

    def __ne__(self, o):
        t = _term(o)
        if t is None:
            return True
        return SymBool(z3.simplify(self.t != t))

    def __bool__(self):
        return engine().branch(self.t != 0)

    def __str__(self):
        s = z3.simplify(self.t)
        if z3.is_int_value(s):
            return str(s.as_long())
        if z3.is_rational_value(s) and s.denominator_as_long() == 1:
            return str(float(s.numerator_as_long()))
        if _ENGINE is None:
            return '<%s>' % s
        return _ENGINE.token(s)

    __repr__ = __str__

    def __format__(self, spec):
        return str(self)


def _real(a):
    return z3.ToReal(a) if a.sort() == z3.IntSort() else a


class SymInt(_SymNum):
    __slots__ = ()

    def __floordiv__(self, o):
        return self._bin(o, lambda a, b: _floordiv(a, b) if b.sort() == z3.IntSort() else NotImplemented)

    def __rfloordiv__(self, o):
        return self._bin(o, lambda a, b: _floordiv(a, b), True)

    def __mod__(self, o):
        return self._bin(o, lambda a, b: a - b * _floordiv(a, b))

    def __rmod__(self, o):
        return self._bin(o, lambda a, b: a - b * _floordiv(a, b), True)

    def __index__(self):
        return engine().concretize(self.t)

    def __round__(self, ndigits=None):
        return self

    def __trunc__(self):
        return self

    def __floor__(self):
        return self

    def __ceil__(self):
        return self

    def __hash__(self):
        return hash(engine().concretize(self.t))

    def __int__(self):
        return engine().concretize(self.t)


class SymReal(_SymNum):
    __slots__ = ()

    def __floordiv__(self, o):
        return self._bin(o, lambda a, b: z3.ToReal(z3.ToInt(_real(a) / _real(b))))

    def __rfloordiv__(self, o):
        return self._bin(o, lambda a, b: z3.ToReal(z3.ToInt(_real(a) / _real(b))), True)

    def __hash__(self):
        s = z3.simplify(self.t)
        if z3.is_rational_value(s):
            return hash(s.numerator_as_long() / s.denominator_as_long())
        raise Inconclusive('hash of a symbolic real')

    def __float__(self):
        s = z3.simplify(self.t)
        if z3.is_rational_value(s):
            return s.numerator_as_long() / s.denominator_as_long()
        raise Inconclusive('float() of a symbolic real')


class SymBool:
    __slots__ = ('t',)

    def __init__(self, t):
        self.t = t

    def __bool__(self):
        return engine().branch(self.t)

    def __and__(self, o): return SymBool(z3.And(self.t, _tobool_term(o)))
    __rand__ = __and__
    def __or__(self, o): return SymBool(z3.Or(self.t, _tobool_term(o)))
    __ror__ = __or__
    def __invert__(self): return SymBool(z3.Not(self.t))

    def __eq__(self, o):
        if isinstance(o, (SymBool, bool)):
            return SymBool(z3.simplify(self.t == _tobool_term(o)))
        t = _term(o)
        if t is None:
            return False
        return SymBool(z3.simplify(z3.If(self.t, 1, 0) == t))

    def __ne__(self, o):
        r = self.__eq__(o)
        return (not r) if isinstance(r, bool) else ~r

    def __hash__(self):
        return hash(bool(self))

    def __index__(self):
        return int(bool(self))

    def __add__(self, o): return _wrap(_term(self) + _term(o))
    __radd__ = __add__

    def __str__(self):
        return str(bool(self))

    __repr__ = __str__


# ---------------------------------------------------------------------------
# shadow builtins (installed as module globals of the module under test)
# ---------------------------------------------------------------------------
import builtins as _bi


def sym_int(x=0, *a):
    """Replacement for ``int`` in a module under test: placeholder tokens and
    symbolic numbers pass through, everything else goes to the builtin."""
    if isinstance(x, SymInt):
        return x
    if isinstance(x, SymBool):
        return SymInt(_term(x))
    if isinstance(x, SymReal):
        s = z3.simplify(x.t)
        if z3.is_rational_value(s):
            return SymInt(z3.IntVal(_bi.int(s.numerator_as_long() / s.denominator_as_long())))
        # truncation toward zero
        return SymInt(z3.simplify(z3.If(x.t >= 0, z3.ToInt(x.t), -z3.ToInt(-x.t))))
    if isinstance(x, str):
        s = x.strip()
        if s.startswith('@') and _ENGINE is not None and s in _ENGINE.tokens:
            t = _ENGINE.tokens[s]
            if t.sort() != z3.IntSort():
                raise ValueError("invalid literal for int() with base 10: %r" % x)
            return SymInt(t)
    return _bi.int(x, *a)


def sym_float(x=0.0):
    if isinstance(x, SymReal):
        return x
    if isinstance(x, (SymInt, SymBool)):
        return SymReal(z3.ToReal(_term(x)))
    if isinstance(x, str):
        s = x.strip()
        if s.startswith('@') and _ENGINE is not None and s in _ENGINE.tokens:
            return SymReal(_real(_ENGINE.tokens[s]))
    return _bi.float(x)


def _sym_extreme(builtin, better, args, kw):
    """max()/min() building an If-term instead of forking (same value as the builtin); anything without symbolic
    items goes to the builtin unchanged (an iterator argument is materialised once)"""
    if len(args) == 1:
        items = list(args[0])
        if kw or not any(isinstance(i, (SymInt, SymReal)) for i in items):
            return builtin(items, **kw)
    else:
        items = list(args)
        if kw or not any(isinstance(i, (SymInt, SymReal)) for i in items):
            return builtin(*args, **kw)
    r = _term(items[0])
    for i in items[1:]:
        ti = _term(i)
        r = z3.If(better(ti, r), ti, r)
    return _wrap(r)


def sym_max(*args, **kw):
    return _sym_extreme(_bi.max, lambda a, b: a > b, args, kw)


def sym_min(*args, **kw):
    return _sym_extreme(_bi.min, lambda a, b: a < b, args, kw)


def term_of(x):
    """z3 term of any number-like (python or symbolic)."""
    if isinstance(x, SymBool):
        return x.t
    t = _term(x)
    if t is None:
        raise TypeError('no z3 term for %r' % (x,))
    return t


def is_sym(x):
    return isinstance(x, (SymInt, SymReal, SymBool))


def holds(pc, claim, timeout_ms=60000):
    """Decide  pc => claim .  Returns ('unsat', None) when it holds,
    ('sat', model) with a counterexample, ('unknown', None) otherwise."""
    s = z3.Solver()
    s.set('timeout', timeout_ms)
    for c in pc:
        s.add(c)
    s.add(z3.Not(claim))
    r = s.check()
    if r == z3.unsat:
        return 'unsat', None
    if r == z3.sat:
        return 'sat', s.model()
    return 'unknown', None


# ---------------------------------------------------------------------------
# placeholder tokens through argparse: independent of HOW the code under test names its type converter
# (a module-level table with type=int evaluated at import time would not see a shadowed ``int``)
# ---------------------------------------------------------------------------
import argparse as _argparse

_orig_get_value = _argparse.ArgumentParser._get_value


def _get_value_with_tokens(self, action, arg_string):
    eng = _ENGINE
    if eng is not None and isinstance(arg_string, str) and arg_string in eng.tokens:
        t = eng.tokens[arg_string]
        conv = action.type
        if conv in (_bi.int, sym_int) and t.sort() == z3.IntSort():
            return SymInt(t)
        if conv in (_bi.float, sym_float):
            return SymReal(_real(t))
    return _orig_get_value(self, action, arg_string)


_argparse.ArgumentParser._get_value = _get_value_with_tokens
