"""Engine E2: the real solver code run against the recording shim with symbolic
numerics.  Shape concrete, every quota / target a z3 Int that enters through
the real file parser (placeholder tokens + shadowed ``int`` in fileIO)."""
import os
import shutil
import tempfile

import z3

from . import lp
from . import pulpshim as shim
from . import repo
from . import spec
from . import sym as S

_scratch = {}


def scratch_file(name='inst.txt'):
    """One file path per process, rewritten for every instance (a user who regenerates / edits an instance
    file and solves the same path again must get the new instance)."""
    import atexit
    pid = os.getpid()
    if _scratch.get('pid') != pid:
        d = tempfile.mkdtemp(prefix='vf_scratch_%d_' % pid)
        _scratch.update(pid=pid, dir=d)
        atexit.register(shutil.rmtree, d, True)
    return os.path.join(_scratch['dir'], name)


FLAGS = {'maxsize': '-maxsize', 'minsize': '-minsize', 'gen': '-gen', 'gre': '-gre',
         'mincost': '-mincost', 'minsqcost': '-minsqcost', 'lmb': '-lmb',
         'lsb': '-lsb', 'mincostlsb': '-mincostlsb'}


class SymClock:
    """datetime stand-in: non-decreasing symbolic instants (reals, seconds)."""

    class Instant:
        def __init__(self, t):
            self.t = t

        def __sub__(self, o):
            return SymClock.Delta(self.t - o.t)

        def strftime(self, fmt):
            return '<start-time>'

    class Delta:
        def __init__(self, d):
            self.d = d

        def total_seconds(self):
            return self.d

        # the fields of a datetime.timedelta (runs shorter than a day)
        @property
        def days(self):
            return 0

        @property
        def seconds(self):
            import z3 as _z3
            return S.SymInt(_z3.ToInt(S.term_of(self.d)))

        @property
        def microseconds(self):
            import z3 as _z3
            t = S.term_of(self.d)
            return S.SymInt(_z3.ToInt((t - _z3.ToReal(_z3.ToInt(t))) * 1000000))

    def __init__(self):
        self.last = None
        self.instants = []
        self.datetime = self

    def time(self):
        return self.now().t

    def perf_counter(self):
        return self.now().t

    def monotonic(self):
        return self.now().t

    def now(self):
        e = S.engine()
        t = e.fresh_real('clock')
        if self.last is not None:
            e.assume(t >= self.last)
        else:
            e.assume(t >= 0)
        self.last = t
        self.instants.append(t)
        return SymClock.Instant(t)


def install_shadows(ns, clock=None):
    """Module-global shadowing in the shim flavour of the repository."""
    ns.fileIO.int = S.sym_int
    ns.options_parser.int = S.sym_int
    ns.model.max = S.sym_max
    ns.lp_solver.max = S.sym_max
    ns.lp_solver.min = S.sym_min
    if clock is not None:
        # every repository module that reads the wall clock sees the same symbolic clock
        import types as _types
        for name, mod in vars(ns).items():
            if isinstance(mod, _types.ModuleType) and '/solver/' in (getattr(mod, '__file__', '') or ''):
                if hasattr(mod, 'datetime') or mod is ns.solver:
                    mod.datetime = clock
                if hasattr(mod, 'time') and isinstance(getattr(mod, 'time'), _types.ModuleType):
                    mod.time = clock


def install_shadows_clock(ns, clock):
    """only the clock part of install_shadows (used by replays on the real flavour)"""
    import types as _types
    saved = []
    for name, mod in vars(ns).items():
        if isinstance(mod, _types.ModuleType) and '/solver/' in (getattr(mod, '__file__', '') or ''):
            if hasattr(mod, 'datetime') or mod is ns.solver:
                saved.append((mod, 'datetime', getattr(mod, 'datetime', None)))
                mod.datetime = clock
            if hasattr(mod, 'time') and isinstance(getattr(mod, 'time'), _types.ModuleType):
                saved.append((mod, 'time', mod.time))
                mod.time = clock

    def restore():
        for mod, attr, val in saved:
            if val is None:
                try:
                    delattr(mod, attr)
                except AttributeError:
                    pass
            else:
                setattr(mod, attr, val)
    return restore


def sym_numerics(I, prefix='q'):
    """Fresh z3 numerics for a shape.  For na == 2 the file only carries the
    project (hospital) quotas; lecturer numerics are what the file denotes:
    same lower / upper quota, target = upper quota."""
    plq = [z3.Int('%s_plq%d' % (prefix, j + 1)) for j in range(I.np)]
    puq = [z3.Int('%s_puq%d' % (prefix, j + 1)) for j in range(I.np)]
    if I.na == 3:
        llq = [z3.Int('%s_llq%d' % (prefix, k + 1)) for k in range(I.nl)]
        lt = [z3.Int('%s_lt%d' % (prefix, k + 1)) for k in range(I.nl)]
        luq = [z3.Int('%s_luq%d' % (prefix, k + 1)) for k in range(I.nl)]
        free = plq + puq + llq + lt + luq
    else:
        llq, lt, luq = list(plq), list(puq), list(puq)
        free = plq + puq
    J = I.with_numerics(plq, puq, llq, lt, luq)
    dom = [v >= 0 for v in free]
    return J, dom, free


def opts_to_argv(seq, tok=str):
    """[(crit, [extra args])] -> flags with positions 1..n (in list order)."""
    argv = []
    for pos, (crit, args) in enumerate(seq):
        argv.append(FLAGS[crit])
        argv.append(str(pos + 1))
        argv.extend(tok(a) for a in args)
    return argv


class E2Run:
    pass


def symbolic_hook(run):
    def hook(prob, snap, solver):
        k = len(run.snaps)
        consts = {}
        pt = lp.Point(snap, 'w%d' % k)
        for var in snap.variables:
            var.varValue = S.SymInt(pt.v[id(var)]) if var.cat != shim.LpContinuous \
                else S.SymReal(pt.v[id(var)])
        snap.point = pt
        run.snaps.append(snap)
        return shim.LpStatusOptimal
    return hook


def run_e2(I, flags, seq, argv_extra=None, hook_factory=symbolic_hook,
           time_limit=None, numerics=None, solve=True, clock=False, argv_seq=None, text_kw=None):
    """Run the real Solver on shape I under the shim.  Must be called inside a
    pathsym exploration.  ``flags``: subset of {'twopl','pc','stab'}.
    ``seq``: ordered criteria [(crit, [args])] (args may be ints or z3 Ints)."""
    ns = repo.load('shim')
    e = S.engine()
    clk = (clock if isinstance(clock, SymClock) else SymClock()) if clock else None
    install_shadows(ns, clk)
    if numerics is None:
        J, dom, free = sym_numerics(I)
    else:
        J, dom, free = numerics
    for d in dom:
        e.assume(d)

    def tok(v):
        if isinstance(v, int):
            return str(v)
        return e.token(v)

    text = spec.inst_to_text(J, tok=tok, **(text_kw or {}))
    run = E2Run()
    run.text_kw = text_kw or {}
    run.ns = ns
    run.inst = J
    run.dom = dom
    run.free = free
    run.snaps = []
    run.text = text
    run.clock = clk
    if True:
        path = scratch_file()
        with open(path, 'w') as f:
            f.write(text)
        argv = ['-f', path, '-na', str(I.na)]
        for fl in ('twopl', 'pc', 'stab'):
            if fl in flags:
                argv.append('-' + fl)
        argv += argv_seq if argv_seq is not None else opts_to_argv(seq, tok)
        if argv_extra:
            argv += argv_extra
        run.argv = argv
        shim.SOLVES.clear()
        shim.SOLVE_HOOK = hook_factory(run)
        try:
            solver = ns.solver.Solver(argv)
        except ValueError as ex:
            if '@S' not in str(ex) or not free:
                raise
            # the reader converted a placeholder token with a converter the shadowed ``int`` does not reach (e.g. one bound
            # at import time): fall back to pairwise-distinct sentinel integers in the file and put the symbols into the
            # Model's documented numeric attributes after the import (column routing is then checked by sentinel identity)
            solver = _sentinel_import(ns, run, J, free, path, argv, text_kw or {})
        run.solver = solver
        if solve:
            solver.solve(msg=False, timeLimit=time_limit, threads=None, write=False)
    return run


def _sentinel_import(ns, run, J, free, path, argv, text_kw):
    sent = {}
    for i, v in enumerate(free):
        sent[v.get_id()] = 1000003 + 7919 * i

    def tok(v):
        return str(v) if isinstance(v, int) else str(sent[v.get_id()])
    text = spec.inst_to_text(J, tok=tok, **text_kw)
    with open(path, 'w') as f:
        f.write(text)
    run.text = text
    run.sentinel_mode = True
    solver = ns.solver.Solver(argv)
    back = {val: S.SymInt(v) for v in free for val in [sent[v.get_id()]]}
    m = solver.model
    for name in ('proj_lower_quotas', 'proj_upper_quotas', 'lec_lower_quotas', 'lec_targets', 'lec_upper_quotas'):
        lst = getattr(m, name)
        for i, val in enumerate(lst):
            if not S.is_sym(val) and val in back:
                lst[i] = back[val]
    return solver


def concrete_numerics(I, trial, wellformed=True):
    """a seeded concrete quota / target vector for shape I (fallback when symbolic quotas make an exploration explode)"""
    import random as _random
    rng = _random.Random((hash(str(I.shape_key())) & 0xffff) * 7 + trial)
    plq = [rng.choice([0, 0, 1]) for _ in range(I.np)]
    puq = [max(q, rng.choice([0, 1, 2, 3])) for q in plq]
    if I.na == 3:
        llq = [rng.choice([0, 0, 1]) for _ in range(I.nl)]
        lt = [max(q, rng.choice([0, 1, 2])) for q in llq]
        luq = [max(q, rng.choice([1, 2, 3])) for q in lt]
    else:
        llq, lt, luq = list(plq), list(puq), list(puq)
    return (I.with_numerics(plq, puq, llq, lt, luq), [], [])


def explore_or_degrade(make_engine, make_body, I, controls, trials=2):
    """explore make_body(None) (symbolic quotas); if the exploration budget is exhausted - the code under test forks on
    the symbolic quotas - explore make_body(concrete numerics) for a few seeded vectors instead and say so"""
    E = make_engine()
    try:
        return E, E.explore(make_body(None))
    except S.Inconclusive:
        controls['degraded_to_concrete'] = controls.get('degraded_to_concrete', 0) + 1
        paths = []
        for t in range(trials):
            E = make_engine()
            paths += E.explore(make_body(concrete_numerics(I, t)))
        return E, paths


def x_of(run, point):
    """(s, p) -> z3 term of the matching variable at ``point`` (0 when the
    variable is not part of the problem: PuLP leaves its value None)."""
    by = {}
    for row in run.solver.model.pairs:
        for pair in row:
            by.setdefault((pair.studentID, pair.projectID), []).append(point.of(pair.lp_var, z3.IntVal(0)))
    x = {}
    for (s, p, _) in run.inst.pairs():
        ts = by.get((s, p), [])
        # the acceptable pairs of the instance the FILE denotes; a pair the solver's model lacks cannot be assigned
        x[(s, p)] = ts[0] if len(ts) == 1 else (z3.Sum(ts) if ts else z3.IntVal(0))
    return x


def unlisted(run, point):
    """matching variables of the solver's model for (student, project) pairs that are NOT acceptable pairs of the
    instance the file denotes: a valid matching has none of them set"""
    ok = {(s, p) for (s, p, _) in run.inst.pairs()}
    out = []
    for row in run.solver.model.pairs:
        for pair in row:
            if (pair.studentID, pair.projectID) not in ok:
                out.append(point.of(pair.lp_var, z3.IntVal(0)))
    return out
