"""Common driver: task fan-out, aggregation, replay, known findings, evidence,
exit codes.  A property module provides:

  ID, LEVEL, FUNCTIONS, BOUNDS(tier) -> str, ASSUMPTIONS, EXPLANATION
  tasks(tier, seed) -> list of picklable task descriptors
  run_task(task) -> dict(obligations, discharged, unknown, cex=[...], queries,
                         solver_time, paths, sample, nontrivial, controls)
  replay(cex) -> (confirmed: bool, detail: str)

A counterexample (cex) is a dict with at least: tag, what, data.
Exit codes: 0 held on everything explored; 1 violation (replayed); 2 harness
error / inconclusive.
"""
import hashlib
import json
import multiprocessing as mp
import os
import sys
import time
import traceback

VERIF = os.path.dirname(os.path.dirname(os.path.abspath(__file__)))
NPROC = int(os.environ.get('VF_NPROC', '16'))
OUT = os.environ.get('VF_OUT', VERIF)   # evidence/ and replays/ go here (mutant runs use a scratch dir)


def _load_known():
    p = os.path.join(VERIF, 'known_findings.json')
    if not os.path.exists(p):
        return {'known': [], 'fixed': []}
    with open(p) as f:
        return json.load(f)


def _worker(args):
    modname, task = args
    import importlib
    mod = importlib.import_module(modname)
    t0 = time.time()
    try:
        r = mod.run_task(task)
    except BaseException as e:  # noqa
        r = {'obligations': 0, 'discharged': 0, 'unknown': 0, 'cex': [],
             'error': '%s: %s\n%s' % (type(e).__name__, e, traceback.format_exc())}
    r.setdefault('cex', [])
    r.setdefault('unknown', 0)
    r['wall'] = time.time() - t0
    r['task'] = getattr(mod, 'describe_task', repr)(task)
    return r


def run_tasks(modname, tasks, nproc=None):
    nproc = nproc or NPROC
    if nproc <= 1 or len(tasks) <= 1:
        return [_worker((modname, t)) for t in tasks]
    ctx = mp.get_context('fork')
    import importlib
    cost = getattr(importlib.import_module(modname), 'task_cost', None)
    order = list(range(len(tasks)))
    if cost is not None:
        order.sort(key=lambda i: -cost(tasks[i]))
    from concurrent.futures import ProcessPoolExecutor, as_completed
    # (a worker that dies makes the executor raise BrokenProcessPool instead of hanging)
    out = [None] * len(tasks)
    t0 = time.time()
    tags, bearing = set(), 0
    pool = ProcessPoolExecutor(max_workers=min(nproc, len(tasks)), mp_context=ctx)
    try:
        futs = {pool.submit(_worker, (modname, tasks[i])): i for i in order}
        for f in as_completed(futs):
            r = f.result()
            out[futs[f]] = r
            if r.get('cex'):
                bearing += 1
                tags.update(c.get('tag') for c in r['cex'])
                # a tree that breaks the property in many places: after 4 minutes with plenty of counterexample classes
                # in hand, stop exploring and go on to replay them (never taken when there is no counterexample)
                if time.time() - t0 > EARLY_STOP_S and (len(tags) >= 12 or bearing >= 100):
                    for g in futs:
                        g.cancel()
                    break
    finally:
        pool.shutdown(wait=True, cancel_futures=True)
    for f, i in futs.items():
        if out[i] is None and f.done() and not f.cancelled():
            try:
                out[i] = f.result()
            except BaseException:  # noqa
                pass
    STOPPED[0] = sum(1 for r in out if r is None)
    return [r for r in out if r is not None]


EARLY_STOP_S = float(os.environ.get('VF_EARLY_STOP_S', '240'))
STOPPED = [0]


def jsonable(x):
    try:
        json.dumps(x)
        return x
    except TypeError:
        if isinstance(x, dict):
            return {str(k): jsonable(v) for k, v in x.items()}
        if isinstance(x, (list, tuple, set)):
            return [jsonable(v) for v in x]
        return str(x)


def main(mod, argv=None):
    # every temporary file of this run (scratch instance files of the worker processes, CBC's .mps/.sol files of the
    # replays, CrossHair harness files) lives under ONE directory that is removed when the run ends
    import shutil
    import tempfile
    root = tempfile.mkdtemp(prefix='vf_run_')
    tempfile.tempdir = root
    os.environ['TMPDIR'] = root
    try:
        return _main2(mod, argv)
    finally:
        tempfile.tempdir = None
        shutil.rmtree(root, ignore_errors=True)


def _main2(mod, argv=None):
    try:
        return _main(mod, argv)
    except BaseException as e:  # noqa - never let a crash look like a verdict
        if isinstance(e, SystemExit):
            raise
        traceback.print_exc()
        print('HARNESS-ERROR: %s: %s' % (type(e).__name__, e), file=sys.stderr)
        return 2


def _main(mod, argv=None):
    argv = sys.argv[1:] if argv is None else argv
    tier = os.environ.get('VERIF_TIER', 'quick')
    replay_path = None
    i = 0
    while i < len(argv):
        if argv[i] == '--tier':
            tier = argv[i + 1]
            i += 2
        elif argv[i] == '--replay':
            replay_path = argv[i + 1]
            i += 2
        else:
            i += 1
    os.environ['VERIF_TIER_EFFECTIVE'] = tier
    seed = int(os.environ.get('VERIF_SEED', '0') or 0)
    pid = mod.ID
    if replay_path:
        with open(replay_path) as f:
            cex = json.load(f)
        ok, detail = mod.replay(cex)
        print(detail)
        if ok:
            print('VIOLATION property=%s replay=%s' % (pid, replay_path))
            return 1
        print('not reproduced')
        return 0

    t0 = time.time()
    tasks = mod.tasks(tier, seed)
    results = run_tasks(mod.__name__, tasks)
    if os.environ.get('VF_DEBUG'):
        for r in sorted(results, key=lambda r: -r['wall'])[:15]:
            print('SLOW %.1fs unknown=%d %s' % (r['wall'], r.get('unknown', 0), json.dumps(jsonable(r['task']))[:400]), file=sys.stderr)
    errors = [r for r in results if r.get('error')]
    obligations = sum(r.get('obligations', 0) for r in results)
    discharged = sum(r.get('discharged', 0) for r in results)
    unknown = sum(r.get('unknown', 0) for r in results)
    queries = sum(r.get('queries', 0) for r in results)
    solver_time = sum(r.get('solver_time', 0.0) for r in results)
    paths = sum(r.get('paths', 0) for r in results)
    nontrivial = sum(r.get('nontrivial', 0) for r in results)
    controls = {}
    for r in results:
        for k, v in (r.get('controls') or {}).items():
            controls[k] = controls.get(k, 0) + v
    if STOPPED[0]:
        controls['stopped_early_tasks_not_run'] = STOPPED[0]
        print('# stopped early: counterexamples in %d tasks; %d of %d tasks not run' % (
            sum(1 for r in results if r.get('cex')), STOPPED[0], len(tasks)))
    with_s = [r['sample'] for r in results if r.get('sample')]
    samples = [with_s[i] for i in sorted({0, len(with_s) // 4, len(with_s) // 2, (3 * len(with_s)) // 4, len(with_s) - 1})] if with_s else []

    # ---- counterexamples: dedupe by tag, replay, match known findings ----
    known = _load_known()
    by_tag = {}
    for r in results:
        for c in r['cex']:
            by_tag.setdefault(c['tag'], []).append(c)
    violations, known_hits, unreproduced = [], [], []
    skipped_replays = 0
    for tag, cs in sorted(by_tag.items()):
        if len(violations) >= 12:
            skipped_replays += 1      # enough confirmed violations to report; the remaining classes are not replayed
            continue
        confirmed = None
        for c in cs[:6]:
            try:
                ok, detail = mod.replay(c)
            except BaseException as e:  # noqa
                ok, detail = False, 'replay raised %s: %s' % (type(e).__name__, e)
            if os.environ.get('VF_DEBUG'):
                print('REPLAY %s -> %s: %s' % (tag, ok, json.dumps(jsonable(c.get('data')))[:300]), file=sys.stderr)
            if ok:
                confirmed = (c, detail)
                break
            last = (c, detail)
        if confirmed is None:
            unreproduced.append({'tag': tag, 'what': cs[0].get('what'), 'detail': last[1]})
            continue
        c, detail = confirmed
        hit = [k for k in known['known'] if k['property'] == pid and k['tag'] == tag]
        if hit:
            known_hits.append((hit[0], len(cs)))
        else:
            violations.append((c, detail, len(cs)))

    out_lines = []
    for k, n in known_hits:
        out_lines.append('KNOWN-FINDING: property=%s %s [%s; %d obligations]' % (pid, k['what'], k['tag'], n))
    rc = 0
    MAXV = 6
    if len(violations) > MAXV:
        print('# %d distinct violation classes confirmed by replay; listing the first %d' % (len(violations), MAXV))
    for c, detail, n in violations[:MAXV]:
        h = hashlib.sha1(json.dumps(jsonable(c), sort_keys=True).encode()).hexdigest()[:12]
        d = os.path.join(OUT, 'replays', pid)
        os.makedirs(d, exist_ok=True)
        path = os.path.join(d, h + '.json')
        with open(path, 'w') as f:
            json.dump(jsonable(c), f, indent=1)
        print('# %s (%d obligations with this tag)\n#   %s' % (c.get('what'), n, detail.replace('\n', '\n#   ')))
        out_lines.append('VIOLATION property=%s replay=%s' % (pid, path))
        rc = 1
    for line in out_lines:
        print(line)
    if errors:
        for r in errors[:5]:
            print('HARNESS-ERROR in task %s:\n%s' % (r['task'], r['error']), file=sys.stderr)
        if rc == 0:
            rc = 2
    if unreproduced:
        for u in unreproduced[:10]:
            print('HARNESS-ERROR: solver counterexample did not reproduce on the real code: %s / %s / %s'
                  % (u['tag'], u['what'], u['detail']), file=sys.stderr)
        if rc == 0:
            rc = 2
    for name, cnt in controls.items():
        if name.startswith('must_') and cnt == 0:
            print('HARNESS-ERROR: control %s never fired (vacuity guard)' % name, file=sys.stderr)
            if rc == 0:
                rc = 2
    if unknown and rc == 0:
        frac = unknown / max(1, obligations)
        print('note: %d of %d obligations inconclusive (solver unknown / budget)' % (unknown, obligations),
              file=sys.stderr)
        if frac > 0.02:
            rc = 2

    wall = time.time() - t0
    ev = {
        'property_id': pid, 'tier': tier, 'seed': seed, 'level': mod.LEVEL,
        'coverage': {
            'explanation': mod.EXPLANATION,
            'functions_encoded': mod.FUNCTIONS,
            'bounds': mod.BOUNDS(tier) if callable(mod.BOUNDS) else mod.BOUNDS,
            'obligations': obligations, 'discharged': discharged,
            'inconclusive': unknown,
            'evaluations': max(1, len(tasks)),
            'distinct_nontrivial': max(nontrivial, 0),
            'rule': getattr(mod, 'RULE', 'one task per (shape, option set); non-trivial = at least one solver obligation decided on it'),
            'samples': jsonable(samples) or ['(none)'],
            'solver_queries': queries, 'solver_time_s': round(solver_time, 3),
            'paths_explored': paths,
            'controls': controls,
            'counterexamples_replayed': len(by_tag) - skipped_replays,
            'counterexample_classes_not_replayed': skipped_replays,
            'known_findings_hit': [k['tag'] for k, _ in known_hits],
            'unreproduced': unreproduced,
            'harness_errors': len(errors),
            'repo_head': _head(),
            'exhaustive': bool(getattr(mod, 'EXHAUSTIVE', {}).get(tier, False)),
            'checker_cmd': './check %s --tier %s' % (pid, tier),
            'trusted_base': ['z3 5.1.0 (z3-solver wheel)', 'CPython 3.12 operator dispatch',
                             'vf/sym.py, vf/pulpshim.py, vf/lp.py, vf/spec.py'],
        },
        'assumptions': mod.ASSUMPTIONS,
        'wall_s': round(wall, 2),
        'violations': len(violations),
    }
    os.makedirs(os.path.join(OUT, 'evidence'), exist_ok=True)
    with open(os.path.join(OUT, 'evidence', pid + '.json'), 'w') as f:
        json.dump(ev, f, indent=1)
    print('%s tier=%s seed=%d tasks=%d obligations=%d discharged=%d inconclusive=%d violations=%d known=%d wall=%.1fs'
          % (pid, tier, seed, len(tasks), obligations, discharged, unknown, len(violations), len(known_hits), wall))
    return rc


def _head():
    from . import repo
    return repo.head()
