#!/usr/bin/env python3
"""Idempotent offline bootstrap of /verif/.venv.

The overlay venv is created from /venv (the repository's interpreter, which has
PuLP + numpy) and sees /venv's site-packages through a .pth file; z3-solver,
cvc5, crosshair-tool and jsonschema are installed from the offline wheelhouse.
Every check calls ensure() first because committed files do not include .venv.
"""
import fcntl
import os
import subprocess
import sys

VERIF = os.path.dirname(os.path.dirname(os.path.abspath(__file__)))
VENV = os.path.join(VERIF, '.venv')
PY = os.path.join(VENV, 'bin', 'python')
BASE_PY = '/venv/bin/python'
BASE_SITE = '/venv/lib/python3.12/site-packages'
WHEELS = '/opt/veriftools/wheels'
PKGS = ['z3-solver', 'cvc5', 'crosshair-tool', 'jsonschema']
STAMP = os.path.join(VENV, '.vf_ready')


def ensure(verbose=False):
    if os.path.exists(STAMP) and os.path.exists(PY):
        return PY
    lock_path = os.path.join(VERIF, '.venv.lock')
    with open(lock_path, 'w') as lock:
        fcntl.flock(lock, fcntl.LOCK_EX)
        if os.path.exists(STAMP) and os.path.exists(PY):
            return PY
        out = None if verbose else subprocess.DEVNULL
        subprocess.check_call([BASE_PY, '-m', 'venv', VENV], stdout=out)
        site = subprocess.check_output(
            [PY, '-c', 'import sysconfig;print(sysconfig.get_paths()["purelib"])'],
            text=True).strip()
        with open(os.path.join(site, 'vf_overlay.pth'), 'w') as f:
            f.write("import site; site.addsitedir(%r)\n" % BASE_SITE)
        env = dict(os.environ, PIP_NO_INDEX='1')
        subprocess.check_call(
            [PY, '-m', 'pip', 'install', '--quiet', '--no-index',
             '--find-links', WHEELS] + PKGS, stdout=out, env=env)
        subprocess.check_call(
            [PY, '-c', 'import z3, pulp, numpy, jsonschema, cvc5'], stdout=out)
        with open(STAMP, 'w') as f:
            f.write('ok\n')
    return PY


if __name__ == '__main__':
    print(ensure(verbose=True))
