"""Obligations over the integer programs built by the real lp_solver.py (E2).

One task = (shape, flags, criteria sequence, obligation forms).  Every form is
decided by z3 over *all* quota / target values (symbolic) and all MILP points.
"""
import time
import traceback

import z3

from . import e2, lp, replay, spec
from . import sym as S
from .spec import Z, P

QTIMEOUT = int(__import__('os').environ.get('VF_QTIMEOUT_MS', '120000'))


def shape_data(I):
    return {'na': I.na, 'ns': I.ns, 'np': I.np, 'nl': I.nl, 'prefs': I.prefs,
            'plec': I.plec, 'lprefs': I.lprefs}


def shape_from(d):
    return spec.Inst(d['na'], d['ns'], d['np'], d['nl'], d['prefs'], d['plec'],
                     d['lprefs'], None, None, None, None, None)


def seq_name(seq):
    return '+'.join(c for c, _ in seq) or 'none'


def wf_constraints(J):
    cs = []
    for j in range(J.np):
        cs.append(J.plq[j] <= J.puq[j])
    if J.na == 3:
        for k in range(J.nl):
            cs.append(J.llq[k] <= J.lt[k])
            cs.append(J.lt[k] <= J.luq[k])
    return cs


def repo_site(exc):
    """innermost frame inside the repository of an exception's traceback"""
    tb = exc.__traceback__
    site = 'unknown'
    while tb is not None:
        fn = tb.tb_frame.f_code.co_filename
        if '/matchingproblems/' in fn:
            site = '%s:%s' % (fn.split('/matchingproblems/')[-1], tb.tb_frame.f_code.co_name)
        tb = tb.tb_next
    return site


def _model_data(J, model, x=None, xo=None):
    C = replay.concretize_inst(J, model)
    d = {'inst': replay.inst_to_data(C)}
    if x is not None:
        d['x'] = [[s, p, int(replay.mval(model, v))] for (s, p), v in x.items()]
    if xo is not None:
        d['xo'] = [[s, p, int(replay.mval(model, v))] for (s, p), v in xo.items()]
    return d


def analyse(task):
    """task: dict(shape, flags, seq, forms, wf, prop)."""
    I = shape_from(task['shape'])
    flags = set(task['flags'])
    seq = [(c, list(a)) for c, a in task['seq']]
    forms = task['forms']
    pc_flag, stab = 'pc' in flags, 'stab' in flags
    res = {'obligations': 0, 'discharged': 0, 'unknown': 0, 'cex': [], 'queries': 0,
           'solver_time': 0.0, 'paths': 0, 'nontrivial': 0, 'controls': {}}
    E = S.Engine(max_paths=64, timeout=120)
    paths = E.explore(lambda: e2.run_e2(I, flags, seq))
    res['paths'] = len(paths)
    res['queries'] += E.stats['solver_queries']
    res['solver_time'] += E.stats['solver_time']
    base = {'shape': task['shape'], 'flags': sorted(flags), 'seq': seq}

    def ask(fs, what):
        t0 = time.time()
        r, m = lp.decide(fs, QTIMEOUT)
        res['queries'] += 1
        res['solver_time'] += time.time() - t0
        return r, m

    def oblige(fs, tag, what, mk_data):
        """fs must be unsat."""
        res['obligations'] += 1
        r, m = ask(fs, what)
        if r == 'unsat':
            res['discharged'] += 1
        elif r == 'unknown':
            res['unknown'] += 1
        else:
            d = dict(base)
            d.update(mk_data(m))
            res['cex'].append({'tag': tag, 'what': what, 'form': tag.split('/')[0], 'data': d})
        return r

    for p in paths:
        if p.exc is not None:
            if 'noexc' in forms:
                res['obligations'] += 1
                site = repo_site(p.exc)
                # a concrete witness of the path condition
                r, m = ask(list(p.pc), 'pc')
                J, _, _ = e2.sym_numerics(I)
                data = dict(base)
                if r == 'sat':
                    data.update(_model_data(J, m))
                res['cex'].append({
                    'tag': 'noexc/%s/%s/%s' % (type(p.exc).__name__, site, seq_name(seq)),
                    'what': 'exception escapes Solver()/solve(): %s: %s' % (type(p.exc).__name__, p.exc),
                    'form': 'noexc', 'data': data})
            continue
        run = p.result
        J = run.inst
        pc = list(p.pc)
        wf = wf_constraints(J) if task.get('wf') else []
        snaps = run.snaps
        if not snaps:
            res['obligations'] += 1
            res['cex'].append({'tag': 'nosolve/%s' % seq_name(seq), 'form': 'nosolve',
                               'what': 'no solve was performed', 'data': dict(base)})
            continue
        res['nontrivial'] = 1
        last = snaps[-1]
        x = e2.x_of(run, last.point)
        chain = None

        def get_chain(upto=None):
            ss = snaps if upto is None else snaps[:upto]
            return [lp.optimal(s_, s_.point, 'u%d' % i) for i, s_ in enumerate(ss)]

        # ---- soundness: every point of the final problem is a valid (stable) matching
        if 'valid' in forms:
            for name, prop_f in (('valid', spec.valid(J, x, pc_flag, Z)),) + (
                    (('stable', spec.stable(J, x, Z)),) if stab else ()):
                fs = pc + wf + [lp.P(last, last.point), z3.Not(prop_f)]
                res['obligations'] += 1
                r, m = ask(fs, name)
                if r == 'unsat':
                    res['discharged'] += 1
                elif r == 'unknown':
                    res['unknown'] += 1
                else:
                    # some point is bad; is an *optimal* one bad?
                    r2, m2 = ask(pc + wf + get_chain() + [z3.Not(prop_f)], name + '-optimal')
                    if r2 == 'unsat':
                        res['discharged'] += 1
                    elif r2 == 'unknown':
                        res['unknown'] += 1
                    else:
                        d = dict(base)
                        d.update(_model_data(J, m2, x=x))
                        res['cex'].append({
                            'tag': '%s/%s/%s' % (name, '+'.join(sorted(flags)) or '-', seq_name(seq)),
                            'what': 'an optimal point of the final integer program is not a %s matching' % name,
                            'form': name, 'data': d})
            # vacuity twin: the final problem has a point at all
            r, _ = ask(pc + wf + [lp.P(last, last.point)], 'twin')
            res['controls']['must_reach_valid'] = res['controls'].get('must_reach_valid', 0) + (1 if r == 'sat' else 0)

        # ---- completeness: no feasible matching is cut by the constraints
        if 'complete' in forms and not seq:
            s0 = snaps[0]
            xo, dom = spec.zvars(J, 'xo')
            fixed = {}
            for row in run.solver.model.pairs:
                for pair in row:
                    if id(pair.lp_var) in s0.point.v:
                        fixed[id(pair.lp_var)] = xo[(pair.studentID, pair.projectID)]
            pt = lp.Point(s0, 'c', consts=fixed)
            aux = [c for vid, c in pt.v.items() if vid not in fixed]
            body = z3.Not(lp.P(s0, pt))
            q = z3.ForAll(aux, body) if aux else body
            missing = [k for k in xo if not any(
                (pair.studentID, pair.projectID) == k and id(pair.lp_var) in s0.point.v
                for row in run.solver.model.pairs for pair in row)]
            fs = pc + wf + dom + [spec.feasible(J, xo, pc_flag, stab, Z), q]
            if missing:
                fs = pc + wf + dom + [spec.feasible(J, xo, pc_flag, stab, Z)] + \
                    [z3.Or([xo[k] == 1 for k in missing] + [q])]
            oblige(fs, 'complete/%s' % ('+'.join(sorted(flags)) or '-'),
                   'a feasible matching is excluded by the integer program',
                   lambda m: _model_data(J, m, xo=xo))

        # ---- feasibility: spec-feasible => every solve of the run has a solution
        if 'feas' in forms:
            xo, dom = spec.zvars(J, 'xo')
            feas = spec.feasible(J, xo, pc_flag, stab, Z)
            for k, sk in enumerate(snaps):
                fs = pc + wf + dom + [feas] + get_chain(k) + [lp.infeasible(sk, 'n%d' % k)]
                objname = ','.join(v.name for v in (sk.objective.terms if sk.objective is not None else {})) or 'none'
                oblige(fs, 'feas/%s/%s' % (seq_name(seq), objname),
                       'feasible instance but solve #%d (%s) has no solution' % (k + 1, objname),
                       lambda m: _model_data(J, m, xo=xo))

        # ---- optimality (lexicographic over the documented measures)
        if 'opt' in forms and seq:
            xo, dom = spec.zvars(J, 'xo')
            feas = spec.feasible(J, xo, pc_flag, stab, Z)
            ch = get_chain()
            better = spec.lex_gt(spec.seq_key(J, xo, seq, Z), spec.seq_key(J, x, seq, Z), Z)
            oblige(pc + wf + dom + ch + [feas, better],
                   'opt/%s/%s' % ('+'.join(sorted(flags)) or '-', seq_name(seq)),
                   'reported optimum beaten by a feasible matching for the documented measure',
                   lambda m: _model_data(J, m, x=x, xo=xo))
            r, _ = ask(pc + wf + ch, 'twin')
            res['controls']['must_reach_opt'] = res['controls'].get('must_reach_opt', 0) + (1 if r == 'sat' else 0)
            if task.get('negctl'):
                # negative control: flipped oracle must be refuted
                worse = spec.lex_gt(spec.seq_key(J, x, seq, Z), spec.seq_key(J, xo, seq, Z), Z)
                r, _ = ask(pc + wf + dom + ch + [feas, worse], 'negctl')
                res['controls']['negctl_sat'] = res['controls'].get('negctl_sat', 0) + (1 if r == 'sat' else 0)

    res['sample'] = {'shape': task['shape'], 'flags': sorted(flags), 'seq': seq, 'forms': forms,
                     'obligations': res['obligations']}
    return res


# ---------------------------------------------------------------------------
# replay of a counterexample on the unpatched code (real PuLP + CBC)
# ---------------------------------------------------------------------------
def argv_of(seq):
    return e2.opts_to_argv([(c, list(a)) for c, a in seq])


def replay_cex(cex):
    d = cex['data']
    form = cex['form']
    flags = set(d['flags'])
    seq = [(c, list(a)) for c, a in d['seq']]
    if 'inst' not in d:
        return False, 'no concrete instance in counterexample'
    I = replay.inst_from_data(d['inst'])
    pcf, stab = 'pc' in flags, 'stab' in flags
    fs = spec.feasible_set(I, pcf, stab)
    txt = spec.inst_to_text(I, trailer=False)
    hdr = 'instance:\n%s\nargv: %s %s' % (txt, ' '.join('-' + f for f in sorted(flags)), ' '.join(argv_of(seq)))
    if form == 'noexc':
        out = replay.real_solve(I, flags, argv_of(seq))
        if out['exc']:
            return True, hdr + '\nreal run raised ' + out['exc']
        return False, hdr + '\nreal run did not raise'
    if form == 'feas':
        out = replay.real_solve(I, flags, argv_of(seq))
        if not fs:
            return False, hdr + '\nspec says infeasible (encoding error)'
        if out['exc']:
            return True, hdr + '\n%d feasible matchings exist but the real run raised %s' % (len(fs), out['exc'])
        st = out['parsed']['status']
        if st != 'Optimal' or out['parsed']['matching'] is None:
            return True, hdr + '\n%d feasible matchings exist (e.g. %s) but the real run reports pulp_status: %s' % (
                len(fs), list(fs[0][0]), st)
        return False, hdr + '\nreal run reports Optimal'
    if form in ('valid', 'stable', 'opt'):
        pin = {(s, p): v for s, p, v in d['x']}
        out = replay.real_solve(I, flags, argv_of(seq), pin_x=pin)
        if out['exc']:
            return False, hdr + '\nreal run raised ' + out['exc']
        pr = out['parsed']
        if pr['matching'] is None:
            return False, hdr + '\nreal run printed no matching (%s)' % pr['status']
        x = spec.x_from_matching_line(I, pr['matching'])
        note = '\nprinted matching: %s (pin %s)' % (pr['matching'], out['pin'])
        if x is None:
            return True, hdr + note + '\nmatching assigns a student to an unacceptable project'
        if form == 'valid':
            bad = not spec.valid(I, x, pcf, P)
            return bad, hdr + note + ('\nnot a valid matching' if bad else '\nvalid')
        if form == 'stable':
            bad = not spec.stable(I, x, P)
            blk = [(s, p) for (s, p, _) in I.pairs() if spec.blocks(I, x, s, p, P)]
            return bad, hdr + note + ('\nblocking pairs: %s' % blk if bad else '\nstable')
        best = spec.best_key(I, pcf, stab, seq)
        mine = tuple(spec.seq_key(I, x, seq, P))
        bad = best is not None and best > mine
        return bad, hdr + note + '\nmeasure vector of printed matching %s, best over feasible matchings %s' % (mine, best)
    if form == 'complete':
        pin = {(s, p): v for s, p, v in d['xo']}
        out = replay.real_solve(I, flags, [], pin_x=pin)
        x_ok = spec.feasible(I, dict(pin), pcf, stab, P)
        if not x_ok:
            return False, hdr + '\nspec says x° infeasible (encoding error)'
        if out['exc']:
            return True, hdr + '\nreal run raised ' + out['exc']
        pr = out['parsed']
        if pr['status'] != 'Optimal':
            return True, hdr + '\nfeasible matching %s exists but status is %s' % (sorted(pin.items()), pr['status'])
        if out['pin'] and out['pin'].startswith('rejected'):
            return True, hdr + '\nCBC rejects the feasible matching %s as a solution of the program (%s)' % (
                [(k, v) for k, v in sorted(pin.items()) if v], out['pin'])
        return False, hdr + '\npin accepted'
    return False, 'unknown form ' + form


# ---------------------------------------------------------------------------
# task construction helpers
# ---------------------------------------------------------------------------
def flag_sets_for(I, with_stab=True, with_pc=True):
    out = [[]]
    if with_pc:
        out.append(['pc'])
    if I.lprefs is not None:
        out.append(['twopl'])
        if with_pc:
            out.append(['twopl', 'pc'])
        if with_stab:
            out.append(['twopl', 'stab'])
            if with_pc:
                out.append(['twopl', 'pc', 'stab'])
    return out


SINGLES = [('maxsize', []), ('minsize', []), ('gen', []), ('gre', []), ('mincost', []),
           ('minsqcost', []), ('lmb', []), ('lsb', []), ('mincostlsb', [])]


def admissible(I, seq):
    """cut-offs inside the documented range (generous 1..max rank, greedy >= 1),
    criteria pairwise distinct"""
    R = I.max_rank()
    if len({c for c, _ in seq}) != len(seq):
        return False
    for c, a in seq:
        if c == 'gen' and a and not (1 <= a[0] <= R):
            return False
        if c == 'gre' and a and a[0] < 1:
            return False
    return True


def describe_task(t):
    return {'shape': t['shape'], 'flags': t['flags'], 'seq': t['seq'], 'forms': t['forms']}
