"""Obligations over the integer programs built by the real lp_solver.py (E2).

One task = (shape, flags, criteria sequence, obligation forms).  Every form is
decided by z3 over *all* quota / target values (symbolic) and all MILP points.
"""
import re
import time
import traceback

import z3

from . import e2, lp, replay, spec
from . import sym as S
from .spec import Z, P

QTIMEOUT = int(__import__('os').environ.get('VF_QTIMEOUT_MS', '120000'))
TASK_BUDGET = float(__import__('os').environ.get('VF_TASK_BUDGET_S', '0') or 0)   # 0: per tier default
_deadline = [None]


def _tmo(ms):
    """solver timeout bounded by what is left of the task budget (>= 0)"""
    if _deadline[0] is None:
        return ms
    left = int((_deadline[0] - time.time()) * 1000)
    return max(0, min(ms, left))


def shape_data(I):
    return {'na': I.na, 'ns': I.ns, 'np': I.np, 'nl': I.nl, 'prefs': I.prefs,
            'plec': I.plec, 'lprefs': I.lprefs}


def shape_from(d):
    return spec.Inst(d['na'], d['ns'], d['np'], d['nl'], d['prefs'], d['plec'],
                     d['lprefs'], None, None, None, None, None)


def seq_name(seq):
    return '+'.join(c for c, _ in seq) or 'none'


def wf_constraints(J):
    cs = []
    for j in range(J.np):
        cs.append(J.plq[j] <= J.puq[j])
    if J.na == 3:
        for k in range(J.nl):
            cs.append(J.llq[k] <= J.lt[k])
            cs.append(J.lt[k] <= J.luq[k])
    return [c if z3.is_expr(c) else z3.BoolVal(bool(c)) for c in cs]


def repo_site(exc):
    """innermost frame inside the repository of an exception's traceback"""
    tb = exc.__traceback__
    site = 'unknown'
    while tb is not None:
        fn = tb.tb_frame.f_code.co_filename
        if '/matchingproblems/' in fn:
            site = '%s:%s' % (fn.split('/matchingproblems/')[-1], tb.tb_frame.f_code.co_name)
        tb = tb.tb_next
    return site


_symseq = [None]


def _model_data(J, model, x=None, xo=None):
    C = replay.concretize_inst(J, model)
    d = {'inst': replay.inst_to_data(C)}
    if _symseq[0] is not None:
        # symbolic multipliers: the counterexample carries their concrete values
        d['seq'] = [(c, [int(replay.mval(model, a)) for a in args]) for c, args in _symseq[0]]
    if x is not None:
        d['x'] = [[s, p, int(replay.mval(model, v))] for (s, p), v in x.items()]
    if xo is not None:
        d['xo'] = [[s, p, int(replay.mval(model, v))] for (s, p), v in xo.items()]
    return d


def analyse(task):
    """task: dict(shape, flags, seq, forms, wf, prop)."""
    I = shape_from(task['shape'])
    flags = set(task['flags'])
    seq = [(c, list(a)) for c, a in task['seq']]
    forms = task['forms']
    pc_flag, stab = 'pc' in flags, 'stab' in flags
    res = {'obligations': 0, 'discharged': 0, 'unknown': 0, 'cex': [], 'queries': 0,
           'solver_time': 0.0, 'paths': 0, 'nontrivial': 0, 'controls': {}}
    budget = TASK_BUDGET or (90.0 if __import__('os').environ.get('VERIF_TIER_EFFECTIVE', 'quick') == 'quick' else 600.0)
    _deadline[0] = time.time() + budget
    E = S.Engine(max_paths=16, timeout=6)
    numerics = None
    if task.get('num'):
        numerics = (I.with_numerics(*task['num']), [], [])
    _symseq[0] = None

    def body():
        e = S.engine()
        seq2 = seq
        if task.get('symmult'):
            # multipliers of the cost criteria are symbolic integers >= 0 (quantifier-light forms only)
            seq2 = []
            for c, a in seq:
                args = []
                for v in a:
                    if v == 'sym':
                        y = e.fresh_int('mult')
                        e.assume(y >= 0)
                        args.append(y.t)
                    else:
                        args.append(v)
                seq2.append((c, args))
        e.notes['seq2'] = seq2
        return e2.run_e2(I, flags, seq2, argv_seq=task.get('argv_seq'), numerics=numerics)
    try:
        paths = E.explore(body)
    except S.Inconclusive as ex:
        # exploration budget exhausted: the code under test forks on symbolic quotas (e.g. it tests a coefficient
        # against zero) more often than the budget allows.  What was explored is still analysed; the task is then
        # repeated with a few CONCRETE well-formed quota vectors (the fallback announced in DESIGN 3.1), which decide
        # it for those vectors only - recorded as 'degraded_to_concrete'
        paths = getattr(ex, 'paths', [])
        if numerics is None and not task.get('_degraded'):
            import random as _random
            rng = _random.Random(hash(str(task['shape'])) & 0xffff)
            for trial in range(3):
                hi = [0, 1, 2, 3][trial] if trial < 3 else 2
                plq = [rng.choice([0, 0, 1]) for _ in range(I.np)]
                puq = [max(q, rng.choice([0, 1, 2, hi + 1])) for q in plq]
                if I.na == 3:
                    llq = [rng.choice([0, 0, 1]) for _ in range(I.nl)]
                    lt = [max(q, rng.choice([0, 1, 2])) for q in llq]
                    luq = [max(q, rng.choice([1, 2, 3])) for q in lt]
                else:
                    llq, lt, luq = list(plq), list(puq), list(puq)
                seq_c = [(c_, [a_ if isinstance(a_, int) else rng.choice([0, 1, 2]) for a_ in args_]) for c_, args_ in task['seq']]
                saved = (_deadline[0], _symseq[0])
                r2 = analyse(dict(task, num=[plq, puq, llq, lt, luq], seq=seq_c, symmult=False, negctl=False, cvc5=False, _degraded=True))
                _deadline[0], _symseq[0] = saved
                for k_ in ('obligations', 'discharged', 'unknown', 'queries', 'solver_time'):
                    res[k_] += r2[k_]
                res['cex'].extend(r2['cex'])
            res['controls']['degraded_to_concrete'] = res['controls'].get('degraded_to_concrete', 0) + 1
            res['nontrivial'] = 1
            res['sample'] = {'shape': task['shape'], 'flags': sorted(flags), 'seq': task['seq'], 'forms': forms, 'degraded_to_concrete': True}
            return res
        res['obligations'] += 1
        res['unknown'] += 1
    res['paths'] = len(paths)
    res['queries'] += E.stats['solver_queries']
    res['solver_time'] += E.stats['solver_time']
    base = {'shape': task['shape'], 'flags': sorted(flags), 'seq': seq, 'argv_seq': task.get('argv_seq')}

    first_smt = []

    def ask(fs, what):
        if not first_smt and what not in ('pc', 'twin'):
            try:
                s_ = z3.Solver()
                s_.add(*fs)
                first_smt.append((what, s_.to_smt2()[:1500]))
            except Exception:  # noqa
                first_smt.append((what, ''))
        t0 = time.time()
        tm = _tmo(QTIMEOUT)
        if tm <= 0:
            return 'unknown', None
        r, m = lp.decide(fs, tm)
        res['queries'] += 1
        res['solver_time'] += time.time() - t0
        return r, m

    def ask_split(fs, xo_, what):
        """decide fs; when z3 does not answer quickly, case-split on the existential
        matching xo_ (every 'at most one project per student' assignment: exact, since
        spec-feasibility is among fs)"""
        t0 = time.time()
        if _tmo(2500) <= 0:
            return 'unknown', None
        r, m = lp.decide(fs, _tmo(2500))
        res['queries'] += 1
        res['solver_time'] += time.time() - t0
        if r != 'unknown':
            return r, m
        import itertools
        per = []
        for s_ in range(1, I.ns + 1):
            per.append([None] + [k for k in xo_ if k[0] == s_])
        conj = z3.And(fs)
        for choice in itertools.product(*per):
            sub = [(v, z3.IntVal(1 if k in choice else 0)) for k, v in xo_.items()]
            f = z3.simplify(z3.substitute(conj, *sub))
            if z3.is_false(f):
                continue
            r, m = ask([f], what + '-case')
            if r != 'unsat':
                if r == 'sat':
                    return ask(fs, what)   # model over the original variables
                return r, m
        return 'unsat', None

    def oblige(fs, tag, what, mk_data):
        """fs must be unsat."""
        res['obligations'] += 1
        r, m = ask(fs, what)
        if r == 'unsat':
            res['discharged'] += 1
        elif r == 'unknown':
            res['unknown'] += 1
        else:
            d = dict(base)
            d.update(mk_data(m))
            res['cex'].append({'tag': tag, 'what': what, 'form': tag.split('/')[0], 'data': d})
        return r

    for p in paths:
        if p.exc is not None:
            if 'noexc' in forms:
                res['obligations'] += 1
                _symseq[0] = p.notes.get('seq2') if task.get('symmult') else None
                site = repo_site(p.exc)
                # a concrete witness of the path condition
                r, m = ask(list(p.pc), 'pc')
                J, _, _ = numerics if numerics is not None else e2.sym_numerics(I)
                data = dict(base)
                if r == 'sat':
                    data.update(_model_data(J, m))
                res['cex'].append({
                    'tag': 'noexc/%s/%s' % (type(p.exc).__name__, site),
                    'what': 'exception escapes Solver()/solve(): %s: %s' % (type(p.exc).__name__, p.exc),
                    'form': 'noexc', 'data': data})
            continue
        run = p.result
        J = run.inst
        _symseq[0] = p.notes.get('seq2') if task.get('symmult') else None
        if task.get('symmult'):
            seq = p.notes['seq2']          # the documented measure with the same symbolic multipliers
            base['seq'] = [(c_, [a_ if isinstance(a_, int) else str(a_) for a_ in args_]) for c_, args_ in seq]
        if 'twopl' not in flags and J.lprefs is not None:
            # without the two-sided flag second-side lists in the file are ignored
            J = spec.Inst(J.na, J.ns, J.np, J.nl, J.prefs, J.plec, None,
                          J.plq, J.puq, J.llq, J.lt, J.luq)
        pc = list(p.pc)
        wf = wf_constraints(J) if task.get('wf') else []
        snaps = run.snaps
        if not snaps:
            res['obligations'] += 1
            res['cex'].append({'tag': 'nosolve/%s' % seq_name(seq), 'form': 'nosolve',
                               'what': 'no solve was performed', 'data': dict(base)})
            continue
        res['nontrivial'] = 1
        last = snaps[-1]
        x = e2.x_of(run, last.point)
        chain = None

        student_vars = [[pair.lp_var for pair in row] for row in run.solver.model.pairs]
        expand_ok = {}

        def can_expand(i):
            """P_i implies 'each student at most one 0/1 variable' (then expanding the
            universally quantified matching over such assignments is exact)"""
            if i not in expand_ok:
                s_ = snaps[i]
                shape_c = []
                for vs in student_vars:
                    ts = [s_.point.v[id(v)] for v in vs if id(v) in s_.point.v]
                    shape_c += [z3.Or(t == 0, t == 1) for t in ts]
                    if ts:
                        shape_c.append(z3.Sum(ts) <= 1)
                r_, _ = ask(pc + [lp.P(s_, s_.point), z3.Not(z3.And(shape_c))], 'expand-side')
                expand_ok[i] = (r_ == 'unsat')
            return expand_ok[i]

        def get_chain(upto=None, mode='plain'):
            ss = snaps if upto is None else snaps[:upto]
            out = []
            for i, s_ in enumerate(ss):
                if mode == 'expanded' and can_expand(i):
                    out.append(lp.optimal_expanded(s_, s_.point, 'v%d' % i, student_vars))
                else:
                    out.append(lp.optimal(s_, s_.point, 'u%d' % i))
            return out

        qe_cache = {}

        def chain_qe(upto, budget_ms=30000):
            """expanded chain with the remaining (auxiliary) universals eliminated by
            z3's qe tactic: the query becomes quantifier-free"""
            key = len(snaps) if upto is None else upto
            if qe_cache.get(key, 0) is None and qe_cache.get(('b', key), 0) < budget_ms:
                del qe_cache[key]
            if key not in qe_cache:
                qe_cache[('b', key)] = budget_ms
                ss = snaps[:key]
                if not all(can_expand(i) for i in range(len(ss))):
                    qe_cache[key] = None
                else:
                    g = z3.Goal()
                    for f in get_chain(upto, 'expanded'):
                        g.add(f)
                    t0 = time.time()
                    try:
                        if _tmo(budget_ms) <= 0:
                            raise z3.Z3Exception('budget')
                        r_ = z3.TryFor(z3.Tactic('qe'), _tmo(budget_ms))(g)
                        qe_cache[key] = [sg.as_expr() for sg in r_]
                    except z3.Z3Exception:
                        qe_cache[key] = None
                    res['solver_time'] += time.time() - t0
                    res['queries'] += 1
            return qe_cache[key]

        def ask_chain(mk, what, upto=None):
            """portfolio over encodings of 'optimal': short plain attempt, expanded with
            quantifier elimination, expanded, then plain with the full budget"""
            lb = any(v.name.startswith('abs_lec_diff') for v in last.variables)
            order = ((('qe', 6000),) if lb else ()) + (('plain', 2000), ('qe', QTIMEOUT), ('expanded', QTIMEOUT), ('plain', QTIMEOUT))
            for mode, tmo in order:
                if mode == 'qe':
                    ch = chain_qe(upto, min(tmo, 30000))
                    if ch is None:
                        continue
                else:
                    ch = get_chain(upto, mode)
                t0 = time.time()
                if _tmo(tmo) <= 0:
                    return 'unknown', None
                r, m = lp.decide(mk(ch), _tmo(tmo))
                res['queries'] += 1
                res['solver_time'] += time.time() - t0
                if r != 'unknown':
                    return r, m
            return 'unknown', None

        # ---- soundness: every point of the final problem is a valid (stable) matching
        if 'valid' in forms:
            extra = e2.unlisted(run, last.point)
            vf_ = spec.valid(J, x, pc_flag, Z)
            if extra:
                vf_ = z3.And([vf_] + [t_ == 0 for t_ in extra])     # only projects on the student's list
            for name, prop_f in (('valid', vf_),) + (
                    (('stable', spec.stable(J, x, Z)),) if stab else ()):
                fs = pc + wf + [lp.P(last, last.point), z3.Not(prop_f)]
                res['obligations'] += 1
                r, m = ask(fs, name)
                if task.get('cvc5') and r in ('sat', 'unsat'):
                    r5 = lp.decide_cvc5(fs)
                    if r5 in ('sat', 'unsat') and r5 != r:
                        raise RuntimeError('solver disagreement on a QF obligation: z3 %s, cvc5 %s' % (r, r5))
                    res['controls']['cvc5_agree'] = res['controls'].get('cvc5_agree', 0) + (1 if r5 == r else 0)
                    res['controls']['cvc5_unknown'] = res['controls'].get('cvc5_unknown', 0) + (1 if r5 == 'unknown' else 0)
                if r == 'unsat':
                    res['discharged'] += 1
                elif r == 'unknown':
                    res['unknown'] += 1
                else:
                    # some point is bad; is an *optimal* one bad?
                    r2, m2 = ask_chain(lambda ch: pc + wf + ch + [z3.Not(prop_f)], name + '-optimal')
                    if r2 == 'unsat':
                        res['discharged'] += 1
                    elif r2 == 'unknown':
                        res['unknown'] += 1
                    else:
                        d = dict(base)
                        d.update(_model_data(J, m2, x=x))
                        res['cex'].append({
                            'tag': '%s/%s/%s' % (name, '+'.join(sorted(flags)) or '-', seq_name(seq[-1:])),
                            'what': 'an optimal point of the final integer program is not a %s matching' % name,
                            'form': name, 'data': d})
            # vacuity twin: the final problem has a point at all
            r, _ = ask(pc + wf + [lp.P(last, last.point)], 'twin')
            res['controls']['must_reach_valid'] = res['controls'].get('must_reach_valid', 0) + (1 if r == 'sat' else 0)

        # ---- completeness: no feasible matching is cut by the constraints
        if 'complete' in forms and not seq:
            s0 = snaps[0]
            xo, dom = spec.zvars(J, 'xo')
            fixed = {}
            for row in run.solver.model.pairs:
                for pair in row:
                    if id(pair.lp_var) in s0.point.v:
                        fixed[id(pair.lp_var)] = xo[(pair.studentID, pair.projectID)]
            pt = lp.Point(s0, 'c', consts=fixed)
            aux = [c for vid, c in pt.v.items() if vid not in fixed]
            body = z3.Not(lp.P(s0, pt))
            q = z3.ForAll(aux, body) if aux else body
            missing = [k for k in xo if not any(
                (pair.studentID, pair.projectID) == k and id(pair.lp_var) in s0.point.v
                for row in run.solver.model.pairs for pair in row)]
            fs = pc + wf + dom + [spec.feasible(J, xo, pc_flag, stab, Z), q]
            if missing:
                fs = pc + wf + dom + [spec.feasible(J, xo, pc_flag, stab, Z)] + \
                    [z3.Or([xo[k] == 1 for k in missing] + [q])]
            oblige(fs, 'complete/%s' % ('+'.join(sorted(flags)) or '-'),
                   'a feasible matching is excluded by the integer program',
                   lambda m: _model_data(J, m, xo=xo))

        # ---- feasibility: spec-feasible => every solve of the run has a solution.
        # Decided inductively: (base) every spec-feasible matching extends to a point of
        # the first problem; (step k) every point of problem k-1 - whose objective value
        # is what the freeze constraint of solve k-1 refers to - extends to a point of
        # problem k.  Both are sufficient conditions with few universally quantified
        # variables; if one fails, the exact chain formula (values frozen by earlier
        # solves are *optimal*) decides before anything is reported.
        if 'feas' in forms:
            xo, dom = spec.zvars(J, 'xo')
            feas = spec.feasible(J, xo, pc_flag, stab, Z)
            for k, sk in enumerate(snaps):
                objname = ','.join(v.name for v in (sk.objective.terms if sk.objective is not None else {})) or 'none'
                crit_k = task.get('solve_crit', {}).get(k) or seq_name(seq)
                tag = 'feas/%s' % re.sub(r'_rank_\d+', '_rank_r', objname)
                what = 'feasible instance but solve #%d (objective %s) has no solution' % (k + 1, objname)
                res['obligations'] += 1
                if k == 0:
                    fixed = {}
                    for row in run.solver.model.pairs:
                        for pair in row:
                            if id(pair.lp_var) in sk.point.v:
                                fixed[id(pair.lp_var)] = xo[(pair.studentID, pair.projectID)]
                    pt = lp.Point(sk, 'c', consts=fixed)
                    aux = [c for vid, c in pt.v.items() if vid not in fixed]
                    body = z3.Not(lp.P(sk, pt))
                    q = z3.ForAll(aux, body) if aux else body
                    absent = [kk for kk in xo if not any(
                        (pair.studentID, pair.projectID) == kk and id(pair.lp_var) in sk.point.v
                        for row in run.solver.model.pairs for pair in row)]
                    cheap = pc + wf + dom + [feas, q] + [xo[kk] == 0 for kk in absent]
                else:
                    prev = snaps[k - 1]
                    shared = {vid: c for vid, c in prev.point.v.items()}
                    pt = lp.Point(sk, 'e%d' % k, consts=shared)
                    new = [c for vid, c in pt.v.items() if vid not in shared]
                    body = z3.Not(lp.P(sk, pt))
                    q = z3.ForAll(new, body) if new else body
                    cheap = pc + wf + [lp.P(prev, prev.point), q]
                r, m = ask(cheap, 'feas-step')
                if r == 'unsat':
                    res['discharged'] += 1
                    continue
                r, m = ask_chain(lambda ch: pc + wf + dom + [feas] + ch + [lp.infeasible(sk, 'n%d' % k)],
                                 'feas-exact', upto=k)
                if r == 'unsat':
                    res['discharged'] += 1
                elif r == 'unknown':
                    res['unknown'] += 1
                else:
                    d = dict(base)
                    d.update(_model_data(J, m, xo=xo))
                    res['cex'].append({'tag': tag, 'what': what, 'form': 'feas', 'data': d})

        # ---- optimality (lexicographic over the documented measures)
        if 'opt' in forms and seq:
            xo, dom = spec.zvars(J, 'xo')
            feas = spec.feasible(J, xo, pc_flag, stab, Z)
            better = spec.lex_gt(spec.seq_key(J, xo, seq, Z), spec.seq_key(J, x, seq, Z), Z)
            res['obligations'] += 1

            def inductive():
                """Sufficient local conditions (one solve at a time, only auxiliary
                variables universally quantified) for lexicographic optimality:
                with kappa_k the k-th component of the documented key and V_j the
                value frozen after solve j,
                  S_k: every point p of problem k is spec-feasible, keeps kappa_j >= V_j
                       for the earlier solves, and its objective is <= kappa_k(x(p));
                  C_k: every spec-feasible x with kappa_j(x) >= V_j (j<k) has a
                       completion in problem k whose objective is >= kappa_k(x).
                Then max objective of problem k = max of kappa_k over the matchings
                optimal for the earlier components, by induction on k."""
                keys_pt = lambda xx: spec.seq_key(J, xx, seq, Z)
                if len(keys_pt(x)) != len(snaps):
                    return False
                V = [lp.objective(s_, s_.point) for s_ in snaps]
                pairs = [pair for row in run.solver.model.pairs for pair in row]
                for k, sk in enumerate(snaps):
                    pt = sk.point
                    xk = e2.x_of(run, pt)
                    kk = keys_pt(xk)
                    goal = z3.And([spec.feasible(J, xk, pc_flag, stab, Z)] +
                                  [kk[j] >= V[j] for j in range(k)] +
                                  [lp.objective(sk, pt) <= kk[k]])
                    r_, m_ = ask(pc + wf + [lp.P(sk, pt), z3.Not(goal)], 'ind-S')
                    if r_ != 'unsat':
                        ind_model.append(m_)
                        return False
                    fixed = {id(pr.lp_var): xo[(pr.studentID, pr.projectID)]
                             for pr in pairs if id(pr.lp_var) in pt.v}
                    if len(fixed) != len(xo):
                        return False
                    cp = lp.Point(sk, 'i%d' % k, consts=fixed)
                    aux = [c for vid, c in cp.v.items() if vid not in fixed]
                    ko = keys_pt(xo)
                    body = z3.Not(z3.And(lp.P(sk, cp), lp.objective(sk, cp) >= ko[k]))
                    q = lp.forall(aux, body)
                    r_, m_ = ask_split(pc + wf + dom + [feas] + [ko[j] >= V[j] for j in range(k)] + [q], xo, 'ind-C')
                    if r_ != 'unsat':
                        ind_model.append(m_)
                        return False
                return True

            ind_model = []
            if inductive():
                r, m = 'unsat', None
                res['controls']['opt_by_induction'] = res['controls'].get('opt_by_induction', 0) + 1
            elif task.get('symmult'):
                # symbolic multipliers: a failed local obligation yields concrete multipliers; the exact decision is made
                # for those (the exact chain with symbolic multipliers under a quantifier is out of z3's reach)
                res['obligations'] -= 1
                if ind_model and ind_model[0] is not None:
                    conc_seq = [(c_, [a_ if isinstance(a_, int) else int(replay.mval(ind_model[0], a_)) for a_ in args_]) for c_, args_ in seq]
                    saved = (_deadline[0], _symseq[0])
                    sub = dict(task, seq=conc_seq, symmult=False, negctl=False)
                    r2 = analyse(sub)
                    _deadline[0], _symseq[0] = saved
                    for k_ in ('obligations', 'discharged', 'unknown', 'queries', 'solver_time'):
                        res[k_] += r2[k_]
                    res['cex'].extend(r2['cex'])
                    res['controls']['symmult_concretised'] = res['controls'].get('symmult_concretised', 0) + 1
                    if not r2['cex']:
                        # the sufficient condition failed for these multipliers but the exact decision for them is fine:
                        # nothing is known about the other multiplier values
                        res['obligations'] += 1
                        res['unknown'] += 1
                else:
                    res['obligations'] += 1
                    res['unknown'] += 1
                continue
            else:
                res['controls']['opt_by_exact_chain'] = res['controls'].get('opt_by_exact_chain', 0) + 1
                r, m = ask_chain(lambda ch: pc + wf + dom + ch + [feas, better], 'opt')
            if r == 'unsat':
                res['discharged'] += 1
            elif r == 'unknown':
                res['unknown'] += 1
            else:
                d = dict(base)
                d.update(_model_data(J, m, x=x, xo=xo))
                res['cex'].append({'tag': 'opt/%s/%s' % ('+'.join(sorted(flags)) or '-', seq_name(seq)),
                                   'what': 'reported optimum beaten by a feasible matching for the documented measure',
                                   'form': 'opt', 'data': d})
            if res['controls'].get('opt_by_induction') and r == 'unsat' and m is None and not task.get('negctl'):
                # vacuity twin of the inductive path: the last problem has a point
                r, _ = ask(pc + wf + [lp.P(last, last.point)], 'twin')
            else:
                r, _ = ask_chain(lambda ch: pc + wf + ch, 'twin')
            res['controls']['must_reach_opt'] = res['controls'].get('must_reach_opt', 0) + (1 if r == 'sat' else 0)
            if task.get('negctl'):
                # negative control: flipped oracle must be refuted
                worse = spec.lex_gt(spec.seq_key(J, x, seq, Z), spec.seq_key(J, xo, seq, Z), Z)
                r, _ = ask_chain(lambda ch: pc + wf + dom + ch + [feas, worse], 'negctl')
                res['controls']['negctl_sat'] = res['controls'].get('negctl_sat', 0) + (1 if r == 'sat' else 0)

    res['sample'] = {'shape': task['shape'], 'flags': sorted(flags), 'seq': task['seq'], 'forms': forms,
                     'obligations': res['obligations'],
                     'first_query': {'form': first_smt[0][0], 'smt2_prefix': first_smt[0][1]} if first_smt else None}
    return res


# ---------------------------------------------------------------------------
# replay of a counterexample on the unpatched code (real PuLP + CBC)
# ---------------------------------------------------------------------------
def argv_of(seq):
    return e2.opts_to_argv([(c, list(a)) for c, a in seq])


def gapped_argv(seq, rng):
    """flags in shuffled order with increasing, possibly gapped positions 1..9"""
    pos = sorted(rng.sample(range(1, 10), len(seq)))
    items = []
    for (c, a), p in zip(seq, pos):
        items.append([e2.FLAGS[c], str(p)] + [str(v) for v in a])
    rng.shuffle(items)
    return [t for it in items for t in it]


def replay_cex(cex):
    d = cex['data']
    form = cex['form']
    flags = set(d['flags'])
    seq = [(c, list(a)) for c, a in d['seq']]
    if 'inst' not in d:
        return False, 'no concrete instance in counterexample'
    if any(isinstance(a, str) for _, args in seq for a in args):
        return False, 'counterexample carries an unresolved symbolic argument'
    I = replay.inst_from_data(d['inst'])
    Ifile = I
    if 'twopl' not in flags and I.lprefs is not None:
        I = spec.Inst(I.na, I.ns, I.np, I.nl, I.prefs, I.plec, None, I.plq, I.puq, I.llq, I.lt, I.luq)
    pcf, stab = 'pc' in flags, 'stab' in flags
    fs = spec.feasible_set(I, pcf, stab) if form == 'feas' else None      # exhaustive: only where it is needed
    txt = spec.inst_to_text(Ifile, trailer=False)
    av = d.get('argv_seq') or argv_of(seq)
    hdr = 'instance:\n%s\nargv: %s %s' % (txt, ' '.join('-' + f for f in sorted(flags)), ' '.join(av))
    if form == 'noexc':
        out = replay.real_solve(Ifile, flags, av)
        if out['exc']:
            return True, hdr + '\nreal run raised ' + out['exc']
        return False, hdr + '\nreal run did not raise'
    if form == 'feas':
        out = replay.real_solve(Ifile, flags, av)
        if not fs:
            return False, hdr + '\nspec says infeasible (encoding error)'
        if out['exc']:
            return True, hdr + '\n%d feasible matchings exist but the real run raised %s' % (len(fs), out['exc'])
        st = out['parsed']['status']
        if st != 'Optimal' or out['parsed']['matching'] is None:
            return True, hdr + '\n%d feasible matchings exist (e.g. %s) but the real run reports pulp_status: %s' % (
                len(fs), list(fs[0][0]), st)
        return False, hdr + '\nreal run reports Optimal'
    if form in ('valid', 'stable', 'opt'):
        pin = {(s, p): v for s, p, v in d['x']}
        out = replay.real_solve(Ifile, flags, av, pin_x=pin)
        if out['exc']:
            return False, hdr + '\nreal run raised ' + out['exc']
        pr = out['parsed']
        if pr['matching'] is None:
            return False, hdr + '\nreal run printed no matching (%s)' % pr['status']
        x = spec.x_from_matching_line(I, pr['matching'])
        note = '\nprinted matching: %s (pin %s)' % (pr['matching'], out['pin'])
        if x is None:
            return True, hdr + note + '\nmatching assigns a student to an unacceptable project'
        if form == 'valid':
            bad = not spec.valid(I, x, pcf, P)
            return bad, hdr + note + ('\nnot a valid matching' if bad else '\nvalid')
        if form == 'stable':
            bad = not spec.stable(I, x, P)
            blk = [(s, p) for (s, p, _) in I.pairs() if spec.blocks(I, x, s, p, P)]
            return bad, hdr + note + ('\nblocking pairs: %s' % blk if bad else '\nstable')
        best = spec.best_key(I, pcf, stab, seq)
        mine = tuple(spec.seq_key(I, x, seq, P))
        bad = best is not None and best > mine
        return bad, hdr + note + '\nmeasure vector of printed matching %s, best over feasible matchings %s' % (mine, best)
    if form == 'complete':
        pin = {(s, p): v for s, p, v in d['xo']}
        out = replay.real_solve(Ifile, flags, [], pin_x=pin)
        x_ok = spec.feasible(I, dict(pin), pcf, stab, P)
        if not x_ok:
            return False, hdr + '\nspec says x° infeasible (encoding error)'
        if out['exc']:
            return True, hdr + '\nreal run raised ' + out['exc']
        pr = out['parsed']
        if pr['status'] != 'Optimal':
            return True, hdr + '\nfeasible matching %s exists but status is %s' % (sorted(pin.items()), pr['status'])
        if out['pin'] and out['pin'].startswith('rejected'):
            return True, hdr + '\nCBC rejects the feasible matching %s as a solution of the program (%s)' % (
                [(k, v) for k, v in sorted(pin.items()) if v], out['pin'])
        return False, hdr + '\npin accepted'
    return False, 'unknown form ' + form


# ---------------------------------------------------------------------------
# task construction helpers
# ---------------------------------------------------------------------------
def flag_sets_for(I, with_stab=True, with_pc=True):
    out = [[]]
    if with_pc:
        out.append(['pc'])
    if I.lprefs is not None:
        out.append(['twopl'])
        if with_pc:
            out.append(['twopl', 'pc'])
        if with_stab:
            out.append(['twopl', 'stab'])
            if with_pc:
                out.append(['twopl', 'pc', 'stab'])
    return out


SINGLES = [('maxsize', []), ('minsize', []), ('gen', []), ('gre', []), ('mincost', []),
           ('minsqcost', []), ('lmb', []), ('lsb', []), ('mincostlsb', [])]


def is_wide(I):
    """the corner shapes with two-digit identifiers: quantifier-free obligations only (too many auxiliary variables
    for the exists-forall forms)"""
    return I.np > 4 or I.ns > 4


def admissible(I, seq):
    """cut-offs inside the documented range (generous 1..max rank, greedy >= 1),
    criteria pairwise distinct"""
    R = I.max_rank()
    if len({c for c, _ in seq}) != len(seq):
        return False
    for c, a in seq:
        if c == 'gen' and a and not (1 <= a[0] <= R):
            return False
        if c == 'gre' and a and a[0] < 1:
            return False
    return True


def describe_task(t):
    return {'shape': t['shape'], 'flags': t['flags'], 'seq': t['seq'], 'forms': t['forms']}


def task_cost(t):
    sh = t['shape']
    c = sum(len(g) for gs in sh['prefs'] for g in gs) + 1
    if 'stab' in t['flags']:
        c *= 3
    if any(x[0] in ('lmb', 'lsb', 'mincostlsb') for x in t['seq']):
        c *= 3
    return c * (1 + len(t['seq']))
