"""C02 - Optimal exactly when a feasible matching exists; never errors."""
import os
import random

from .. import harness, lpchecks, shapes, e1, e2, spec, replay as rp
from ..spec import P
from ..lpchecks import SINGLES
from ._lpcommon import FUNCTIONS, BASE_ASSUMPTIONS, EXTRA

ID = 'C02'
LEVEL = 'other'
ENGINE = 'pathsym + lp2smt E2 (z3 exists-forall) + E1 translation validation'
EXPLANATION = (
    'Bounded SMT verification of the real code (E2). For every shape / flag set / criteria sequence the real '
    'Solver()+solve() is run on a file with symbolic quotas against the recording PuLP stand-in. z3 then decides, '
    'over all well-formed quota vectors: (feas) "some matching satisfies the requested constraints, the values frozen '
    'by the earlier solves are optimal, and yet the k-th problem handed to solve has no solution" is unsat for every k '
    '(exists-forall); (valid/stable) every point of the problem is a feasible matching, so Optimal implies feasible; '
    '(noexc) no path of Solver()/solve() ends in an exception, incl. the back-end contract of unique variable and '
    'constraint names. Counterexamples are replayed on real PuLP + CBC.')
ASSUMPTIONS = BASE_ASSUMPTIONS + [
    'well-formed instance: 0 <= lower <= upper per project, 0 <= lower <= target <= upper per lecturer',
    'multipliers: concrete grid {0..3} in the general tasks, plus dedicated tasks where the multipliers of mincost/minsqcost and the student multiplier of mincostlsb are symbolic integers >= 0 (a symbolic lecturer multiplier of mincostlsb multiplies integer variables: nonlinear, z3 does not decide it in reach); cut-offs enumerated within 1..max rank (greedy also above)']
LEVEL_TEXT = ('Bounded SMT verification of the real code: exists-forall queries show that no well-formed quota vector makes a feasible '
              'instance infeasible (or erroring) at any solve of the run, and QF queries show Optimal implies feasible; shapes bounded.')
LEVEL_NOTE = ('Trusted: z3 (quantified linear integer arithmetic), the PuLP stand-in, vf/spec.py. Outside the claim: CBC and its MPS '
              'interface, shapes beyond ns<=4/np<=3/nl<=3, multipliers beyond the grid inside quantifiers.')
TECHNIQUE = 'symbolic execution of the real LP builder with symbolic quotas + exists-forall SMT (z3) feasibility-preservation queries per solve; CBC replay'
RULE = 'one task per (shape, flag set, criteria sequence); non-trivial = at least one solve snapshot and one decided obligation'


def BOUNDS(tier):
    return ('shapes: corner set + seeded random shapes ns<=4, np<=3, nl<=3; flag sets: all admissible; criteria: none, all singles '
            '(defaults + argument variants), %s ordered pairs per (shape, flags); quotas symbolic >= 0 with lower<=target<=upper'
            % ('2' if tier == 'quick' else '12'))


def tasks(tier, seed):
    rng = random.Random(seed + 202)
    shs = shapes.shape_set(tier, seed, quick_n=30, thorough_n=240)
    out = []
    for I in shs:
        for flags in lpchecks.flag_sets_for(I):
            seqs = [[]] + [[c] for c in SINGLES] + [[c] for c in EXTRA]
            seqs.append([('gre', [I.max_rank() + 1])])
            for _ in range(2 if tier == 'quick' else 12):
                seqs.append(rng.sample(SINGLES + EXTRA[:1], 2))
            if tier == 'thorough':
                seqs.append(rng.sample(SINGLES, 3))
            # the pair that shares a variable name is always included
            seqs.append([('mincost', []), ('minsqcost', [])])
            seqs.append([('gen', []), ('gre', [])])
            seqs.append([('gre', []), ('gen', [])])
            for s in seqs:
                if not lpchecks.admissible(I, s):
                    continue
                forms = ['noexc', 'feas'] + (['valid'] if len(s) <= 1 else [])
                if lpchecks.is_wide(I):
                    forms = ['noexc', 'valid'] + (['feas'] if not flags and not any(c_ in ('lmb', 'lsb', 'mincostlsb') for c_, _ in s) else [])
                    if len(s) > 1 and rng.random() < 0.7:
                        continue
                out.append({'prop': ID, 'shape': lpchecks.shape_data(I), 'flags': flags, 'seq': s,
                            'forms': forms, 'wf': True})
            # multipliers of the cost criteria as SYMBOLIC integers >= 0 (bound adequacy for all multipliers)
            for s in [] if lpchecks.is_wide(I) else ([('mincost', ['sym', 'sym'])], [('minsqcost', ['sym', 'sym'])], [('mincostlsb', ['sym', 2])],
                      [('maxsize', []), ('mincost', ['sym', 'sym'])], [('mincostlsb', ['sym', 1]), ('minsqcost', ['sym', 'sym'])]):
                out.append({'prop': ID, 'shape': lpchecks.shape_data(I), 'flags': flags, 'seq': s,
                            'forms': ['noexc', 'feas', 'valid'], 'wf': True, 'symmult': True})
    # translation validation of the PuLP stand-in + end-to-end text oracle on real PuLP objects (E1)
    ntv = 120 if tier == 'quick' else 1200
    for i in range(ntv):
        I = shs[i % len(shs)]
        plq = [rng.choice([0, 0, 1, 2]) for _ in range(I.np)]
        puq = [max(q, rng.choice([0, 1, 2, 3])) for q in plq]
        if I.na == 3:
            llq = [rng.choice([0, 0, 1]) for _ in range(I.nl)]
            lt = [max(q, rng.choice([0, 1, 2])) for q in llq]
            luq = [max(q, rng.choice([1, 2, 3])) for q in lt]
        else:
            llq, lt, luq = list(plq), list(puq), list(puq)
        flags = rng.choice(lpchecks.flag_sets_for(I))
        k = rng.choice([0, 1, 1, 2, 2, 3])
        seq = rng.sample(SINGLES + EXTRA, k)
        if not lpchecks.admissible(I, seq):
            seq = seq[:1] if lpchecks.admissible(I, seq[:1]) else []
        out.append({'kind': 'tv', 'shape': lpchecks.shape_data(I), 'num': [plq, puq, llq, lt, luq], 'flags': flags, 'seq': seq,
                    'argv_seq': lpchecks.gapped_argv(seq, rng), 'forms': ['tv']})
    # the repository's own evaluation corpus (recorded 2020 results) through the real pipeline + translation validation
    import os
    from .. import repo as _repo
    corpus = {('hr', 'genmax'): (2, ['twopl'], ['-maxsize', '1', '-gen', '2']), ('hr', 'gremax'): (2, ['twopl'], ['-maxsize', '1', '-gre', '2']),
              ('hr', 'gre_pc'): (2, ['twopl', 'pc'], ['-gre', '1']), ('spa', 'genmax'): (3, ['twopl'], ['-maxsize', '1', '-gen', '2']),
              ('spa', 'gremax'): (3, ['twopl'], ['-maxsize', '1', '-gre', '2']), ('spa_no_lq', 'stable'): (3, ['twopl', 'stab'], []),
              ('spa_onesided', 'genmax'): (3, [], ['-maxsize', '1', '-gen', '2'])}
    for (d, mode), (na, flags, av) in corpus.items():
        for i in range(5 if tier == 'thorough' else 2):
            inst = os.path.join(_repo.REPO, 'Evaluations', d, 'instances', '%d.txt' % i)
            rec = os.path.join(_repo.REPO, 'Evaluations', d, mode, '%d.txt' % i)
            if os.path.exists(inst) and os.path.exists(rec):
                out.append({'kind': 'corpus', 'inst': inst, 'rec': rec, 'na': na, 'flags': flags, 'argv_seq': av, 'forms': ['corpus'],
                            'shape': {'ns': 6, 'np': 8, 'nl': 4, 'prefs': []}, 'seq': []})
    return out


def corpus_task(task):
    import re
    res = {'obligations': 0, 'discharged': 0, 'unknown': 0, 'cex': [], 'queries': 0, 'solver_time': 0.0,
           'paths': 1, 'nontrivial': 1, 'controls': {}}
    text = open(task['inst']).read()
    I = spec.parse_text(text, task['na'], 'twopl' in task['flags'] or True if _has_second(text, task['na']) else False)
    real = e1.run_real(I, task['flags'], task['argv_seq'])
    sh = e1.run_shim(I, task['flags'], task['argv_seq'])
    if real['exc'] or sh['exc']:
        raise RuntimeError('corpus run failed: %r / %r' % (real['exc'], sh['exc']))
    d = e1.diff(real['problems'], sh['problems'])
    if d is not None:
        raise RuntimeError('translation validation (corpus %s): %s' % (task['inst'], d))
    res['controls']['must_tv_agree'] = 1
    res['controls']['corpus_instances'] = 1
    rec = open(task['rec']).read()
    m1 = re.search(r'^profile: < (.*)>$', rec, re.M)
    m2 = re.search(r'^profile: < (.*)>$', real['text'], re.M)
    res['obligations'] += 1
    if 'stab' in task['flags']:
        ok = 'pulp_status: Optimal' in real['text'] and 'stability_correct: True' in real['text']
    else:
        st = lambda t: (re.search(r'^pulp_status: (.*)$', t, re.M) or [None, None])[1]
        ok = bool(m1 and m2 and m1.group(1).split() == m2.group(1).split()) or (not m1 and not m2 and st(rec) == st(real['text']))
    if ok:
        res['discharged'] += 1
    else:
        res['cex'].append({'tag': 'corpus/%s' % os.path.basename(os.path.dirname(task['rec'])), 'form': 'corpus',
                           'what': 'recorded result of the evaluation corpus not reproduced: recorded profile %s, now %s' % (m1 and m1.group(1), m2 and m2.group(1)),
                           'data': {k: task[k] for k in ('inst', 'rec', 'na', 'flags', 'argv_seq')}})
    res['sample'] = {'corpus': task['inst'], 'argv': task['argv_seq'], 'profile': m2 and m2.group(1)}
    return res


def _has_second(text, na):
    lines = text.split('\n')
    ns = int(lines[0].split()[0])
    np_ = int(lines[0].split()[1])
    row = lines[ns + np_ + 1] if na == 3 else lines[ns + 1]
    return len([x for x in row.split(':')[-1].split()]) > 0 and len(row.split(':')) >= (5 if na == 3 else 4)


def tv_task(task):
    res = {'obligations': 0, 'discharged': 0, 'unknown': 0, 'cex': [], 'queries': 0, 'solver_time': 0.0,
           'paths': 1, 'nontrivial': 1, 'controls': {}}
    I = lpchecks.shape_from(task['shape']).with_numerics(*task['num'])
    flags, av = task['flags'], task['argv_seq']
    real = e1.run_real(I, flags, av)
    sh = e1.run_shim(I, flags, av)
    res['controls']['tv_programs'] = len(real['problems'])
    if (real['exc'] is None) != (sh['exc'] is None):
        raise RuntimeError('translation validation: real PuLP run %r vs stand-in run %r' % (real['exc'], sh['exc']))
    d = e1.diff(real['problems'], sh['problems'])
    if d is not None:
        raise RuntimeError('translation validation: the PuLP stand-in disagrees with real PuLP: %s (argv %s %s)' % (d, flags, av))
    res['controls']['must_tv_agree'] = 1
    # end-to-end oracle on the text produced by the real pipeline (z3 back end on real PuLP objects)
    bad, what, detail = judge(I, flags, task['seq'], real)
    res['obligations'] += 1
    if bad:
        res['cex'].append({'tag': 'e1/%s' % what, 'what': 'real pipeline (z3 back end): ' + detail.split('\n')[-1],
                           'form': 'e1', 'data': {k: task[k] for k in ('shape', 'num', 'flags', 'seq', 'argv_seq')}})
    else:
        res['discharged'] += 1
    res['sample'] = {'tv': True, 'flags': flags, 'argv': av, 'solves': len(real['problems'])}
    return res


def judge(I, flags, seq, out):
    Id = I if 'twopl' in flags else spec.Inst(I.na, I.ns, I.np, I.nl, I.prefs, I.plec, None, I.plq, I.puq, I.llq, I.lt, I.luq)
    pcf, stab = 'pc' in flags, 'stab' in flags
    fs = spec.feasible_set(Id, pcf, stab)
    hdr = 'instance:\n%sargv %s %s\n' % (spec.inst_to_text(I, trailer=False), flags, out.get('argv', ''))
    if out['exc']:
        return True, 'raises', hdr + 'raised ' + out['exc']
    pr = rp.parse_results(out['text'])
    if not fs:
        ok = pr['status'] == 'Infeasible' and pr['matching'] is None
        return (not ok), 'status', hdr + 'no feasible matching exists; reported status %s, matching %s' % (pr['status'], pr['matching'])
    if pr['status'] != 'Optimal' or pr['matching'] is None:
        return True, 'status', hdr + '%d feasible matchings exist; reported status %s' % (len(fs), pr['status'])
    x = spec.x_from_matching_line(Id, pr['matching'])
    if x is None or not spec.feasible(Id, x, pcf, stab, P):
        return True, 'matching', hdr + 'reported matching %s does not satisfy the requested constraints' % pr['matching']
    seq = [(c_, list(a_)) for c_, a_ in seq]
    if seq:
        best = spec.best_key(Id, pcf, stab, seq)
        mine = tuple(spec.seq_key(Id, x, seq, P))
        if mine != best:
            return True, 'optimum', hdr + 'reported matching %s has measure vector %s, optimum %s' % (pr['matching'], mine, best)
    return False, 'ok', hdr + 'ok'


def run_task(task):
    if task.get('kind') == 'tv':
        return tv_task(task)
    if task.get('kind') == 'corpus':
        return corpus_task(task)
    return lpchecks.analyse(task)


def replay(cex):
    if cex.get('form') == 'corpus':
        import re
        d = cex['data']
        text = open(d['inst']).read()
        I = spec.parse_text(text, d['na'], _has_second(text, d['na']))
        out = rp.real_solve(I, set(d['flags']), d['argv_seq'])
        rec = open(d['rec']).read()
        m1 = re.search(r'^profile: < (.*)>$', rec, re.M)
        got = out['parsed']['profile'] if out.get('parsed') else None
        want = [int(t) for t in m1.group(1).split()] if m1 else None
        if 'stab' in d['flags']:
            bad = not (out.get('parsed') and out['parsed']['status'] == 'Optimal' and out['parsed']['stability_correct'] == 'True')
        else:
            st = re.search(r'^pulp_status: (.*)$', rec, re.M)
            bad = got != want or (want is None and (st and st.group(1).strip()) != (out.get('parsed') or {}).get('status'))
        return bad, 'real PuLP + CBC on %s %s: profile %s, recorded %s' % (d['inst'], d['argv_seq'], got, want)
    if cex.get('form') == 'e1':
        d = cex['data']
        I = lpchecks.shape_from(d['shape']).with_numerics(*d['num'])
        out = rp.real_solve(I, set(d['flags']), d['argv_seq'])
        bad, what, detail = judge(I, d['flags'], d['seq'], out)
        return bad, 'real PuLP + CBC: ' + detail
    return lpchecks.replay_cex(cex)


describe_task = lpchecks.describe_task
task_cost = lpchecks.task_cost

if __name__ == '__main__':
    raise SystemExit(harness.main(__import__('sys').modules[__name__]))
