"""C02 - Optimal exactly when a feasible matching exists; never errors."""
import random

from .. import harness, lpchecks, shapes
from ..lpchecks import SINGLES
from ._lpcommon import FUNCTIONS, BASE_ASSUMPTIONS, EXTRA

ID = 'C02'
LEVEL = 'other'
ENGINE = 'pathsym + lp2smt E2 (z3 exists-forall) + E1 translation validation'
EXPLANATION = (
    'Bounded SMT verification of the real code (E2). For every shape / flag set / criteria sequence the real '
    'Solver()+solve() is run on a file with symbolic quotas against the recording PuLP stand-in. z3 then decides, '
    'over all well-formed quota vectors: (feas) "some matching satisfies the requested constraints, the values frozen '
    'by the earlier solves are optimal, and yet the k-th problem handed to solve has no solution" is unsat for every k '
    '(exists-forall); (valid/stable) every point of the problem is a feasible matching, so Optimal implies feasible; '
    '(noexc) no path of Solver()/solve() ends in an exception, incl. the back-end contract of unique variable and '
    'constraint names. Counterexamples are replayed on real PuLP + CBC.')
ASSUMPTIONS = BASE_ASSUMPTIONS + [
    'well-formed instance: 0 <= lower <= upper per project, 0 <= lower <= target <= upper per lecturer',
    'multipliers are concrete inside quantified obligations (grid {0..3}); cut-offs enumerated within 1..max rank (greedy also above)']
LEVEL_TEXT = ('Bounded SMT verification of the real code: exists-forall queries show that no well-formed quota vector makes a feasible '
              'instance infeasible (or erroring) at any solve of the run, and QF queries show Optimal implies feasible; shapes bounded.')
LEVEL_NOTE = ('Trusted: z3 (quantified linear integer arithmetic), the PuLP stand-in, vf/spec.py. Outside the claim: CBC and its MPS '
              'interface, shapes beyond ns<=4/np<=3/nl<=3, multipliers beyond the grid inside quantifiers.')
TECHNIQUE = 'symbolic execution of the real LP builder with symbolic quotas + exists-forall SMT (z3) feasibility-preservation queries per solve; CBC replay'
RULE = 'one task per (shape, flag set, criteria sequence); non-trivial = at least one solve snapshot and one decided obligation'


def BOUNDS(tier):
    return ('shapes: corner set + seeded random shapes ns<=4, np<=3, nl<=3; flag sets: all admissible; criteria: none, all singles '
            '(defaults + argument variants), %s ordered pairs per (shape, flags); quotas symbolic >= 0 with lower<=target<=upper'
            % ('2' if tier == 'quick' else '12'))


def tasks(tier, seed):
    rng = random.Random(seed + 202)
    shs = shapes.shape_set(tier, seed, quick_n=30, thorough_n=240)
    out = []
    for I in shs:
        for flags in lpchecks.flag_sets_for(I):
            seqs = [[]] + [[c] for c in SINGLES] + [[c] for c in EXTRA]
            seqs.append([('gre', [I.max_rank() + 1])])
            for _ in range(2 if tier == 'quick' else 12):
                seqs.append(rng.sample(SINGLES + EXTRA[:1], 2))
            if tier == 'thorough':
                seqs.append(rng.sample(SINGLES, 3))
            # the pair that shares a variable name is always included
            seqs.append([('mincost', []), ('minsqcost', [])])
            for s in seqs:
                if not lpchecks.admissible(I, s):
                    continue
                forms = ['noexc', 'feas'] + (['valid'] if len(s) <= 1 else [])
                out.append({'prop': ID, 'shape': lpchecks.shape_data(I), 'flags': flags, 'seq': s,
                            'forms': forms, 'wf': True})
    return out


run_task = lpchecks.analyse
describe_task = lpchecks.describe_task
task_cost = lpchecks.task_cost
replay = lpchecks.replay_cex

if __name__ == '__main__':
    raise SystemExit(harness.main(__import__('sys').modules[__name__]))
