"""C05 - with stability requested the solver searches exactly the stable matchings."""
import random

from .. import harness, lpchecks, shapes
from ._lpcommon import FUNCTIONS, BASE_ASSUMPTIONS

ID = 'C05'
LEVEL = 'other'
ENGINE = 'pathsym + lp2smt E2 (z3 QF + exists-forall)'
EXPLANATION = (
    'Bounded SMT verification of the real code (E2) on two-sided shapes (HR/SM via -na 2, SPA via -na 3) with symbolic quotas. '
    '(i) soundness, QF: no point of the program built with -stab projects to a matching with a blocking pair (conditions 2, 3a, 3b incl. '
    '"already supervises", 3c written from the property text); (ii) completeness, exists-forall over alpha/beta (and closure) variables: no '
    'valid stable matching is excluded by the program; (iii) optimality of -stab -maxsize / -stab -minsize over the stable matchings '
    '(inductive local obligations, exact chain query as fallback). Zero capacities, lecturer capacity below the sum of its projects\', '
    'shared lecturers and ties on both sides are inside the symbolic numerics / the shape set. Counterexamples are replayed on real PuLP + CBC.')
ASSUMPTIONS = BASE_ASSUMPTIONS + ['lecturer lists rank exactly the students that find one of the lecturer\'s projects acceptable (C12)']
LEVEL_TEXT = ('Bounded SMT verification of the real code: z3 decides soundness (QF) and completeness (exists-forall) of the stability encoding '
              'for all quota vectors and all MILP points per enumerated two-sided shape, plus optimality of max/min size over stable matchings.')
LEVEL_NOTE = 'Trusted: z3, PuLP stand-in, the blocking-pair definition in vf/spec.py (from the property text). Outside: CBC, shapes beyond ns<=4/np<=3/nl<=3.'
TECHNIQUE = 'symbolic execution of the real stability-constraint builder (symbolic quotas) + SMT (z3): QF soundness and exists-forall completeness against the SPA-STL blocking-pair definition; CBC replay'
RULE = 'one task per (two-sided shape, flag set with -stab, criteria sequence); non-trivial = snapshot recorded and obligations decided'
EXHAUSTIVE = {}


def BOUNDS(tier):
    return ('two-sided shapes: corner set + %s; flags {-twopl -stab} x {-pc}; criteria: none (soundness+completeness), maxsize, minsize '
            '(+ one other single criterion per shape for soundness); quotas symbolic >= 0 unbounded (no well-formedness assumed for soundness/completeness)'
            % ('200 seeded random ns<=4,np<=3,nl<=3' if tier == 'quick' else '2000 seeded random + exhaustive ns<=2,np<=2,nl<=2'))


def tasks(tier, seed):
    rng = random.Random(seed + 505)
    shs = shapes.shape_set(tier, seed, twosided=True, quick_n=200, thorough_n=2000)
    if tier == 'thorough':
        seen = {s.shape_key() for s in shs}
        for dims in ((3, 2, 2, 2), (3, 2, 2, 1), (2, 2, 2, 2), (3, 1, 2, 2)):
            for s in shapes.enumerate_shapes(dims[0], dims[1], dims[2], dims[3], True):
                if s.shape_key() not in seen:
                    seen.add(s.shape_key())
                    shs.append(s)
    others = [('gen', []), ('gre', []), ('mincost', [1, 1]), ('minsqcost', []), ('lmb', []), ('lsb', []), ('mincostlsb', [])]
    out = []
    for i, I in enumerate(shs):
        for flags in (['twopl', 'stab'], ['twopl', 'pc', 'stab']):
            sd = lpchecks.shape_data(I)
            out.append({'prop': ID, 'shape': sd, 'flags': flags, 'seq': [], 'forms': ['valid', 'complete'], 'wf': False})
            for c in ('maxsize', 'minsize'):
                out.append({'prop': ID, 'shape': sd, 'flags': flags, 'seq': [(c, [])], 'forms': ['valid', 'opt'],
                            'wf': False, 'negctl': i < 3})
            out.append({'prop': ID, 'shape': sd, 'flags': flags, 'seq': [rng.choice(others)], 'forms': ['valid'], 'wf': False})
    return out


run_task = lpchecks.analyse
describe_task = lpchecks.describe_task
task_cost = lpchecks.task_cost
replay = lpchecks.replay_cex

if __name__ == '__main__':
    raise SystemExit(harness.main(__import__('sys').modules[__name__]))
