"""C17 - popularity skew is linear with the requested ratio."""
import z3

from .. import harness, repo
from .. import sym as S

ID = 'C17'
LEVEL = 'other'
ENGINE = 'pathsym + z3 nonlinear real arithmetic'
FUNCTIONS = ['generator_shared.create_linear_distribution', 'generator_shared.create_pref_lists_original (p= argument of the sampling call)']
EXPLANATION = (
    'The real create_linear_distribution(n, s) is executed symbolically for each n up to the bound with the skew s a symbolic real > 0 '
    '(np.sum, list/scalar division and float() are exact-arithmetic stand-ins; the function is called twice in one process with two different '
    'symbolic skews so that state carried between calls is visible). z3 (nlsat) proves for ALL s > 0: every weight > 0, weights sum to 1, '
    'consecutive differences equal, last = s * first (n >= 2), single weight = 1 (n = 1). A second obligation runs the real '
    'create_pref_lists_original against an RNG stub and checks that exactly this vector is handed to the sampling call as p=. '
    'Counterexamples are replayed in binary64 with numpy.')
ASSUMPTIONS = ['floats are modelled as exact reals; IEEE rounding is outside the claim (replay uses tolerance 1e-9)',
               'numpy sum / elementwise division are exact']
LEVEL_TEXT = 'SMT proof (nonlinear real arithmetic) over all skews s > 0 for each n within the bound, on the term built by running the real function.'
LEVEL_NOTE = 'Trusted: z3 nlsat, vf/sym.py real-arithmetic model of float. Outside: n above the bound, binary64 rounding.'
TECHNIQUE = 'symbolic execution of create_linear_distribution with a symbolic real skew; z3 (NRA) proves positivity, normalisation, equal differences and last = s * first'
RULE = 'one task per n (two successive calls with independent symbolic skews); non-trivial = n >= 2'
EXHAUSTIVE = {}


def BOUNDS(tier):
    return 'n = 1..%d, skew symbolic real > 0 (all values), two successive calls per n' % (20 if tier == 'quick' else 60)


def tasks(tier, seed):
    N = 20 if tier == 'quick' else 60
    return [{'n': n} for n in range(1, N + 1)] + [{'n': n, 'via': 'sampler'} for n in (1, 2, 3, 5)] + \
        [{'n': n, 'via': 'int'} for n in range(1, (8 if tier == 'quick' else 20) + 1)]


class NpStub:
    """exact-arithmetic stand-in for the numpy functions the function uses"""

    def __init__(self, real_np):
        self._np = real_np

    def sum(self, xs):
        t = 0
        for x in xs:
            t = t + x
        return S.SymReal(S._real(S.term_of(t))) if not isinstance(t, S.SymReal) else t

    # numpy's dtype inference, as a contract: an array created from integer fill values has an integer dtype and
    # TRUNCATES what is stored into it; any other fill value gives a float array
    def full(self, shape, fill_value, dtype=None):
        is_int = (isinstance(fill_value, int) and not isinstance(fill_value, bool)) or (
            S.is_sym(fill_value) and S.term_of(fill_value).sort() == z3.IntSort())
        if dtype is not None:
            is_int = dtype in (int, 'int', 'int64')
        return TypedArray([fill_value] * int(shape), is_int)

    def zeros(self, shape, dtype=float):
        return TypedArray([0 if dtype in (int, 'int', 'int64') else 0.0] * int(shape), dtype in (int, 'int', 'int64'))

    def ones(self, shape, dtype=float):
        return TypedArray([1 if dtype in (int, 'int', 'int64') else 1.0] * int(shape), dtype in (int, 'int', 'int64'))

    def __getattr__(self, name):
        return getattr(self._np, name)


class TypedArray:
    """one-dimensional array with numpy's store semantics for an integer dtype (truncation toward zero)"""

    def __init__(self, items, is_int):
        self.items = list(items)
        self.is_int = is_int

    def __len__(self):
        return len(self.items)

    def __iter__(self):
        return iter(self.items)

    def __getitem__(self, i):
        return self.items[i]

    def __setitem__(self, i, v):
        if self.is_int:
            if S.is_sym(v):
                t = S.term_of(v)
                if t.sort() != z3.IntSort():
                    t = z3.If(t >= 0, z3.ToInt(t), -z3.ToInt(-t))
                v = S.SymInt(t)
            else:
                v = int(v)
        self.items[i] = v

    def __truediv__(self, o):
        return [x / o for x in self.items]

    def __mul__(self, o):
        return [x * o for x in self.items]

    __rmul__ = __mul__

    def tolist(self):
        return list(self.items)


def claims_for(weights, s_t, n):
    ws = [S._real(S.term_of(w)) for w in weights]
    cl = [('length', z3.BoolVal(len(ws) == n))]
    if len(ws) != n:
        return cl
    cl += [('weight %d positive' % i, w > 0) for i, w in enumerate(ws)]
    cl.append(('sum to one', z3.Sum(ws) == 1))
    if n >= 3:
        for i in range(n - 2):
            cl.append(('equal differences %d' % i, ws[i + 1] - ws[i] == ws[i + 2] - ws[i + 1]))
    if n >= 2:
        cl.append(('last = s * first', ws[-1] == s_t * ws[0]))
    else:
        cl.append(('single weight is one', ws[0] == 1))
    return cl


def run_task(task):
    n = task['n']
    ns = repo.load('real')
    g = ns.gshared
    res = {'obligations': 0, 'discharged': 0, 'unknown': 0, 'cex': [], 'queries': 0, 'solver_time': 0.0,
           'paths': 0, 'nontrivial': 1 if n >= 2 else 0, 'controls': {}}
    real_np, real_float = g.np, getattr(g, 'float', float)

    def body():
        e = S.engine()
        g.np = NpStub(real_np)
        g.float = S.sym_float
        try:
            outs = []
            if task.get('via') == 'sampler':
                s1 = e.fresh_real('s')
                e.assume(s1 > 0)
                rec = {}
                stub = RngStub(rec)
                g.np = NpStubRng(real_np, stub)
                rnd = g.random
                g.random = stub
                try:
                    g.create_pref_lists_original(2, n, 1, n, 0.0, s1)
                finally:
                    g.random = rnd
                outs.append((s1.t, rec.get('p')))
                return outs
            if task.get('via') == 'int':
                # an integer skew (a caller passing 3 rather than 3.0) is a skew > 0 like any other
                si = e.fresh_int('si')
                e.assume(si >= 1)
                outs.append((z3.ToReal(si.t), g.create_linear_distribution(n, si)))
                return outs
            for k in range(2):
                s = e.fresh_real('s')
                e.assume(s > 0)
                outs.append((s.t, g.create_linear_distribution(n, s)))
            return outs
        finally:
            g.np = real_np
            if real_float is float:
                try:
                    del g.float
                except AttributeError:
                    pass

    E = S.Engine(max_paths=64, timeout=300)
    try:
        paths = E.explore(body)
    finally:
        g.np = real_np
    res['paths'] = len(paths)
    for p in paths:
        if p.exc is not None:
            res['obligations'] += 1
            res['cex'].append({'tag': 'exception/%s' % type(p.exc).__name__, 'what': 'raised %r' % (p.exc,),
                               'data': {'n': n, 'skews': [2.0, 5.0], 'via': task.get('via')}})
            continue
        for call, (s_t, w) in enumerate(p.result):
            if w is None:
                res['obligations'] += 1
                res['cex'].append({'tag': 'sampler/no-p', 'what': 'sampling call received no p= vector',
                                   'data': {'n': n, 'skews': [2.0], 'via': 'sampler'}})
                continue
            for name, c in claims_for(list(w), s_t, n):
                res['obligations'] += 1
                r, m = S.holds(p.pc, c, 120000)
                res['queries'] += 1
                if r == 'unsat':
                    res['discharged'] += 1
                elif r == 'unknown':
                    res['unknown'] += 1
                else:
                    sk = []
                    for (st, _) in p.result:
                        v = m.eval(st, model_completion=True)
                        try:
                            sk.append(v.numerator_as_long() / v.denominator_as_long())
                        except Exception:  # algebraic number
                            sk.append(float(v.approx(10).as_fraction()))
                    res['cex'].append({'tag': 'weights/%s/call%d' % (name.split(' ')[0], call), 'what': '%s (call %d)' % (name, call + 1),
                                       'data': {'n': n, 'skews': sk, 'via': task.get('via')}})
    res['sample'] = {'n': n, 'via': task.get('via', 'direct'),
                     'weights_term': str(paths[0].result[0][1][:2]) if paths and paths[0].exc is None and paths[0].result[0][1] is not None else None}
    return res


class RngStub:
    """records the p= vector given to the sampling call; returns an arbitrary admissible draw"""

    def __init__(self, rec):
        self.rec = rec

    def shuffle(self, x):
        return None

    def randint(self, a, b):
        return a

    def choice(self, pop, size=None, replace=True, p=None):
        if replace is False:
            self.rec['p'] = list(p) if p is not None else None
            return list(pop)[:size]
        return [0] * size


class NpStubRng(NpStub):
    def __init__(self, real_np, stub):
        NpStub.__init__(self, real_np)
        self.random = stub


def replay(cex):
    d = cex['data']
    ns = repo.load('real')
    import numpy as np
    n = d['n']
    out = []
    bad = False
    try:
        for s in d['skews']:
            s = int(s) if d.get('via') == 'int' else float(s)
            if d.get('via') == 'sampler':
                rec = {}
                orig = np.random.choice

                def ch(pop, size=None, replace=True, p=None):
                    if replace is False:
                        rec['p'] = p
                    return orig(pop, size, replace=replace, p=p)
                np.random.choice = ch
                try:
                    ns.gshared.create_pref_lists_original(2, n, 1, n, 0.0, s)
                finally:
                    np.random.choice = orig
                w = rec.get('p')
            else:
                w = ns.gshared.create_linear_distribution(n, s)
            w = [float(x) for x in w]
            tol = 1e-9
            ok = len(w) == n and all(x > 0 for x in w) and abs(sum(w) - 1) < tol
            if ok and n >= 2:
                ok = abs(w[-1] - s * w[0]) < tol * max(1, s) and all(
                    abs((w[i + 1] - w[i]) - (w[1] - w[0])) < tol for i in range(n - 1))
            if ok and n == 1:
                ok = abs(w[0] - 1) < tol
            out.append('n=%d s=%r -> %s %s' % (n, s, [round(x, 6) for x in w], 'ok' if ok else 'WRONG'))
            bad = bad or not ok
    except Exception as e:  # noqa
        return True, 'n=%d skews=%s: real function raised %r' % (n, d['skews'], e)
    return bad, '\n'.join(out)


def describe_task(t):
    return t


if __name__ == '__main__':
    raise SystemExit(harness.main(__import__('sys').modules[__name__]))
