"""C03 - each optimisation criterion optimises the quantity it is documented to optimise."""
import random

from .. import harness, lpchecks, shapes
from ..lpchecks import SINGLES
from ._lpcommon import FUNCTIONS, BASE_ASSUMPTIONS

ID = 'C03'
LEVEL = 'other'
ENGINE = 'pathsym + lp2smt E2 (z3 exists-forall)'
EXPLANATION = (
    'Bounded SMT verification of the real code (E2). Per shape / flag set / single criterion with an argument vector, '
    'the real solve chain (one solve for most criteria, one per rank for generous/greedy, each followed by the real freeze '
    'constraint) is recorded with symbolic quotas. z3 decides the exists-forall obligation: there are no quotas, no chain of '
    'points each optimal for its recorded problem, and no matching x0 satisfying the requested constraints (validity, closure '
    'rule, stability - written from the property text) such that x0 is strictly better than the reported matching for the '
    'DOCUMENTED measure (README defaults). A twin query (chain satisfiable) guards against vacuity and a flipped-oracle control '
    'must be satisfiable. Counterexamples are replayed on real PuLP + CBC with the matching pinned.')
ASSUMPTIONS = BASE_ASSUMPTIONS + [
    'well-formed instance: lower <= upper per project, lower <= target <= upper per lecturer',
    'multipliers: a concrete grid AND tasks in which the weights of mincost/minsqcost and the student weight of mincostlsb are symbolic integers >= 0 (all values); the lecturer weight of mincostlsb multiplies integer variables and stays on the grid {0,1,3}', 'cut-offs enumerated 1..max rank (+1 for greedy)']
LEVEL_TEXT = ('Bounded SMT verification of the real code: z3 shows (exists-forall, all quotas, all MILP tie-breaks) that the matching '
              'reported after the real solve chain is optimal for the documented measure among all matchings satisfying the requested constraints; shapes bounded.')
LEVEL_NOTE = ('Trusted: z3 quantifier reasoning (MBQI, qe), PuLP stand-in, vf/spec.py measures. Outside: CBC, shapes beyond the bound, lecturer multipliers of mincostlsb beyond the grid.')
TECHNIQUE = 'symbolic execution of the real LP/objective builder with symbolic quotas + exists-forall SMT (z3) optimality query against the documented measure; CBC replay'
RULE = 'one task per (shape, flag set, criterion + argument vector); non-trivial = chain recorded and optimality obligation decided'


def BOUNDS(tier):
    return ('shapes: corner set + seeded random ns<=4, np<=3, nl<=3; flag sets: all admissible; 9 criteria with default args; '
            'cut-offs: every 1..R (greedy also R+1); multipliers: %s; quotas symbolic, well-formed'
            % ('4 vectors per criterion, 8 argument variants sampled per (shape, flags)' if tier == 'quick' else 'all of {0..3}^2 (thorough: {0..2}^2 plus (3,1),(1,3))'))


def arg_variants(I, tier, rng):
    R = I.max_rank()
    out = [(c, []) for c, _ in SINGLES]
    for c in range(1, R + 1):
        out.append(('gen', [c]))
    for c in range(1, R + 2):
        out.append(('gre', [c]))
    if tier == 'quick':
        mv = [[2], [0, 1], [1, 1], [2, 3]]
    else:
        mv = [[y] for y in range(0, 3)] + [[y, z] for y in range(0, 3) for z in range(0, 3)] + [[3, 1], [1, 3]]
    for c in ('mincost', 'minsqcost', 'mincostlsb'):
        for m in mv:
            out.append((c, m))
    return out


def tasks(tier, seed):
    rng = random.Random(seed + 303)
    shs = [s for s in shapes.shape_set(tier, seed, quick_n=30, thorough_n=160) if not lpchecks.is_wide(s)]
    out = []
    # the corner shapes with two-digit identifiers: criteria without auxiliary load-balancing variables, no -pc / -stab
    for I in [s for s in shapes.corner_shapes() if lpchecks.is_wide(s)]:
        for flags in ([[], ['twopl']] if I.lprefs is not None else [[]]):
            for c in (('maxsize', []), ('minsize', []), ('gre', []), ('gen', []), ('mincost', []), ('mincost', [1, 1]), ('minsqcost', [0, 1])):
                out.append({'prop': ID, 'shape': lpchecks.shape_data(I), 'flags': flags, 'seq': [c], 'forms': ['opt'], 'wf': True})
    for i, I in enumerate(shs):
        for flags in lpchecks.flag_sets_for(I):
            av = arg_variants(I, tier, rng)
            if tier == 'quick':
                av = av[:9] + rng.sample(av[9:], min(8, len(av) - 9))
            for c in av:
                out.append({'prop': ID, 'shape': lpchecks.shape_data(I), 'flags': flags, 'seq': [c],
                            'forms': ['opt'], 'wf': True, 'negctl': i < 3})
            # EVERY multiplier vector at once: the weights of mincost / minsqcost and the student weight of mincostlsb are
            # symbolic integers >= 0 (the measure stays linear: sum of If(x = 1, y * rank_s + z * rank_l, 0))
            for c in (('mincost', ['sym', 'sym']), ('minsqcost', ['sym', 'sym']), ('mincostlsb', ['sym', 0]), ('mincostlsb', ['sym', 1]),
                      ('mincostlsb', ['sym', 3])):
                out.append({'prop': ID, 'shape': lpchecks.shape_data(I), 'flags': flags, 'seq': [c],
                            'forms': ['opt'], 'wf': True, 'symmult': True})
    return out


run_task = lpchecks.analyse
describe_task = lpchecks.describe_task
task_cost = lpchecks.task_cost
replay = lpchecks.replay_cex

if __name__ == '__main__':
    raise SystemExit(harness.main(__import__('sys').modules[__name__]))
