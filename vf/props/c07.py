"""C07 - brute-force mode reports the exact optimum of every statistic it prints."""
import builtins
import itertools
import random

import z3

from .. import harness, repo, lpchecks, shapes, e2, spec, replay as rp
from .. import sym as S
from ..spec import Z, P

ID = 'C07'
LEVEL = 'other'
ENGINE = 'pathsym (inductive fold step, is_valid equivalence) + concrete end-to-end cross-check'
FUNCTIONS = ['brute_force_solver.Brute_force_solver.run (loop body, one inductive step from a symbolic accumulator state; initial step from the real initial values)',
             'brute_force_solver.Brute_force_solver.moregen/moregre', 'brute_force_solver.Brute_force_solver.is_valid/get_matching_pairs',
             'brute_force_solver.Brute_force_solver.get_results', 'model.Model._get_cost/_get_cost_sq/_get_degree/_get_profile/_get_max_lec_abs_diff/_get_sum_lec_abs_diff (end-to-end part)']
EXPLANATION = (
    'The enumeration loop is exponential, so the property is decided compositionally, each part symbolic. (a) FOLD, inductive: the real run() is executed '
    'symbolically with itertools.product replaced by a generator that overwrites the accumulators with an ARBITRARY symbolic pre-state and yields one matching, '
    'whose validity flag, size, cost pair, squared-cost pair, degree, profile (length R), max and total deviation are fresh symbols; per path z3 proves that the '
    'post-state equals the specification fold step (max size; over max-size matchings lexicographically least cost pair, least degree, least squared-cost pair, '
    'most generous and most greedy profile; over all matchings most greedy profile, least max and total deviation). The same from the REAL initial values with one '
    'first record (initial-value neutrality, for a grid of (students, R, lecturers)). One step covers histories of any length. (b) is_valid / get_matching_pairs: '
    'per shape with symbolic quotas and every assignment vector (incl. unacceptable projects) z3 proves the returned flag equals the validity specification '
    '(with and without -pc). (c) end-to-end: real -bf runs on concrete small instances against the exhaustive specification optimum of all nine statistics and the '
    'Infeasible verdict (secondary cross-check of the composition).')
ASSUMPTIONS = ['accumulator invariant for the inductive step: stored profiles are non-negative, the max-size profiles sum to the stored maximum size, the overall greedy profile sums to at most it',
               'record invariants of a valid matching: sizes/costs/profile entries >= 0, profile sums to size, max deviation <= max lecturer upper quota, total deviation <= lecturers * max upper quota (well-formed targets)',
               'statistic helpers are checked against the specification in C11; here they are stubbed in (a) and real in (b), (c)']
LEVEL_TEXT = ('Inductive SMT argument on the real loop body (arbitrary symbolic accumulator state and record; R bounded) + SMT equivalence of the real validity test with the '
              'specification for all quotas per shape + concrete end-to-end agreement on small instances.')
LEVEL_NOTE = 'Trusted: z3, vf/sym.py, the fold specification here, vf/spec.py. Outside: R above the bound in (a) (quick 2, thorough 3), shapes beyond the bound in (b)/(c).'
TECHNIQUE = 'symbolic execution of one iteration of the real brute-force loop from an arbitrary symbolic accumulator state (inductive step) + SMT equivalence of is_valid with the spec under symbolic quotas; concrete end-to-end cross-check'
RULE = 'fold: one task per (R, mode, first decision split); valid: one task per (shape, -pc); e2e: one task per (shape, quota vector, -pc); non-trivial = path whose record is valid / matching non-empty'
EXHAUSTIVE = {}
NSPLIT = 32


def BOUNDS(tier):
    return ('(a) R <= %d, initial-step grid students 1..3 x lecturers 1..2; (b) %s shapes ns<=3, np<=3, symbolic quotas, all (np+1)^ns assignment vectors, -pc on/off; '
            '(c) %s concrete instances (quotas from {0..2}/{0..3}), one- and two-sided' % ((2, '14', '60') if tier == 'quick' else (3, '80', '600')))


def tasks(tier, seed):
    rng = random.Random(seed + 707)
    out = []
    Rmax = 2 if tier == 'quick' else 3
    for R in range(1, Rmax + 1):
        for split in range(NSPLIT):
            out.append({'kind': 'fold', 'R': R, 'mode': 'step', 'split': split})
        for nst in (1, 2, 3):
            for nl in (1, 2):
                out.append({'kind': 'fold', 'R': R, 'mode': 'init', 'ns': nst, 'nl': nl, 'split': None})
    shs = [s for s in shapes.shape_set(tier, seed, quick_n=10, thorough_n=90) if s.ns <= 3]
    shs = shs[:14] if tier == 'quick' else shs[:80]
    for I in shs:
        if lpchecks.is_wide(I):
            # 13^3 assignments x 2^12 closure branches per assignment: is_valid on the two-digit shapes is exercised by the
            # end-to-end tasks below (concrete quotas) instead
            continue
        for pc in (False, True):
            out.append({'kind': 'valid', 'shape': lpchecks.shape_data(I), 'pc': pc})
    n = 60 if tier == 'quick' else 600
    for i in range(n):
        I = shs[i % len(shs)]
        plq = [rng.choice([0, 0, 1, 2]) for _ in range(I.np)]
        puq = [max(q, rng.choice([0, 1, 2, 3])) for q in plq]
        if I.na == 3:
            llq = [rng.choice([0, 0, 1]) for _ in range(I.nl)]
            lt = [max(q, rng.choice([0, 1, 2])) for q in llq]
            luq = [max(q, rng.choice([1, 2, 3])) for q in lt]
        else:
            llq, lt, luq = list(plq), list(puq), list(puq)
        out.append({'kind': 'e2e', 'shape': lpchecks.shape_data(I), 'num': [plq, puq, llq, lt, luq], 'pc': bool(i % 2),
                    'twopl': I.lprefs is not None and i % 3 != 0})
    return out


# ---------------------------------------------------------------------------
# (a) fold step
# ---------------------------------------------------------------------------
class Mark(list):
    """stands for the list of matched pairs of the one matching of the step; its length is the symbolic size, so it is
    falsy exactly when that size is 0"""
    size = None

    def __bool__(self):
        return bool(self.size != 0)


def lexlt(a, b):
    """tuple a < b lexicographically (z3)"""
    res = z3.BoolVal(False)
    for x, y in reversed(list(zip(a, b))):
        res = z3.Or(x < y, z3.And(x == y, res))
    return res


def moregen_spec(p, q):
    res = z3.BoolVal(False)
    for x, y in zip(p, q):          # from rank 1 upwards, innermost = worst rank decided first
        res = z3.Or(x < y, z3.And(x == y, res)) if False else res
    # explicit: exists i: p[i] < q[i] and all j > i equal
    ors = []
    for i in range(len(p)):
        ors.append(z3.And([p[i] < q[i]] + [p[j] == q[j] for j in range(i + 1, len(p))]))
    return z3.Or(ors) if ors else z3.BoolVal(False)


def moregre_spec(p, q):
    ors = []
    for i in range(len(p)):
        ors.append(z3.And([p[i] > q[i]] + [p[j] == q[j] for j in range(i)]))
    return z3.Or(ors) if ors else z3.BoolVal(False)


def ite_vec(c, a, b):
    return [z3.If(c, x, y) for x, y in zip(a, b)]


def fold_task(task, res):
    R, mode = task['R'], task['mode']
    nsm = repo.load('real')
    bfm = nsm.bf
    nst, nl = task.get('ns', 2), task.get('nl', 1)
    maxluq = 2
    # a real Model of the right dimensions (its contents are not consulted: helpers are stubbed)
    I = spec.Inst(3, nst, R, nl, [[[k + 1] for k in range(R)] for _ in range(nst)], [1] * R, None, [0] * R, [nst] * R,
                  [0] * nl, [0] * nl, [maxluq] * nl)   # max rank = R

    def body():
        e = S.engine()
        import os, shutil, tempfile
        d = tempfile.mkdtemp(prefix='vf_c07_')
        try:
            path = os.path.join(d, 'i.txt')
            with open(path, 'w') as f:
                f.write(spec.inst_to_text(I))
            sv = nsm.solver.Solver(['-f', path, '-na', '3', '-bf'])
        finally:
            shutil.rmtree(d, ignore_errors=True)
        model = sv.model
        solver = bfm.Brute_force_solver(sv.options_parser.instance_options, model)
        fi = lambda n: e.fresh_int(n)
        rec = {'valid': e.fresh_bool('valid'), 'size': fi('s'), 'cost': (fi('c'), fi('c')), 'sq': (fi('q'), fi('q')), 'deg': fi('g'),
               'prof': [fi('p') for _ in range(R)], 'md': fi('md'), 'sd': fi('sd')}
        for v in [rec['size'], rec['cost'][0], rec['cost'][1], rec['sq'][0], rec['sq'][1], rec['deg'], rec['md'], rec['sd']] + rec['prof']:
            e.assume(v >= 0)
        e.assume(z3.Sum([p.t for p in rec['prof']]) == rec['size'].t)
        e.assume(rec['md'] <= maxluq)
        e.assume(rec['sd'] <= maxluq * nl)
        e.assume(rec['md'] <= rec['sd'])
        # reachable statistics of a matching of this model: ranks are at most R (students) / nst (lecturers)
        e.assume(rec['size'] <= nst)
        e.assume(rec['cost'][0] <= rec['size'] * R)
        e.assume(rec['cost'][1] <= rec['size'] * nst)
        e.assume(rec['sq'][0] <= rec['size'] * R * R)
        e.assume(rec['sq'][1] <= rec['size'] * nst * nst)
        e.assume(rec['deg'] <= R)
        pre = None
        if mode == 'step':
            pre = {'size': fi('S'), 'cost': (fi('C'), fi('C')), 'sq': (fi('Q'), fi('Q')), 'deg': fi('G'),
                   'gen': [fi('GP') for _ in range(R)], 'gre': [fi('HP') for _ in range(R)], 'allgre': [fi('AP') for _ in range(R)],
                   'md': fi('MD'), 'sd': fi('SD')}
            e.assume(pre['size'] >= 0)
            # invariant of reachable accumulator states (a counterexample from a state no history reaches
            # would mean the invariant is too weak, not that the code is wrong): the stored profiles are
            # profiles of valid matchings, the two max-size ones of matchings of the maximum size
            for k in ('gen', 'gre', 'allgre'):
                for x_ in pre[k]:
                    e.assume(x_ >= 0)
            e.assume(z3.Sum([x_.t for x_ in pre['gen']]) == pre['size'].t)
            e.assume(z3.Sum([x_.t for x_ in pre['gre']]) == pre['size'].t)
            e.assume(z3.Sum([x_.t for x_ in pre['allgre']]) <= pre['size'].t)
            for k in ('cost', 'sq'):
                for x_ in pre[k]:
                    e.assume(x_ >= 0)
            e.assume(pre['deg'] >= 0)
            e.assume(pre['md'] >= 0)
            e.assume(pre['sd'] >= pre['md'])
        else:
            e.assume(rec['valid'].t)
        mark = Mark()
        mark.size = rec['size']
        solver.get_matching_pairs = lambda *a, **k: mark
        solver.is_valid = lambda *a, **k: rec['valid']
        model._get_cost = lambda *a, **k: rec['cost']
        model._get_cost_sq = lambda *a, **k: rec['sq']
        model._get_degree = lambda *a, **k: rec['deg']
        model._get_profile = lambda *a, **k: list(rec['prof'])
        model._get_max_lec_abs_diff = lambda *a, **k: rec['md']
        model._get_sum_lec_abs_diff = lambda *a, **k: rec['sd']

        def my_len(x):
            return rec['size'] if x is mark else builtins.len(x)

        def my_product(*a, **k):
            if pre is not None:
                solver.optimal_size = pre['size']
                solver.optimal_maxsizemincost = pre['cost']
                solver.optimal_maxsizeminsqcost = pre['sq']
                solver.optimal_maxsizemindegree = pre['deg']
                solver.optimal_generousmaxprofile = list(pre['gen'])
                solver.optimal_greedymaxprofile = list(pre['gre'])
                solver.optimal_greedyprofile = list(pre['allgre'])
                solver.optimal_max_lec_abs_diff = pre['md']
                solver.optimal_sum_lec_abs_diff = pre['sd']
            yield tuple([0] * nst)
        saved = (getattr(bfm, 'len', None), bfm.product)
        bfm.len, bfm.product = my_len, my_product
        try:
            solver.run()
        finally:
            bfm.product = saved[1]
            if saved[0] is None:
                del bfm.len
            else:
                bfm.len = saved[0]
        e.notes['rec'], e.notes['pre'] = rec, pre
        return solver

    E = S.Engine(max_paths=200000, timeout=2400)
    if mode == 'step':
        # split the exploration over processes by the first decisions
        fr = S.Engine(max_paths=100000, timeout=600).frontier(body, 9)
        mine = [p for i, p in enumerate(fr) if i % NSPLIT == task['split']]
        paths = E.explore(body, prefixes=mine) if mine else []
        res['controls']['fold_frontier'] = len(fr)
    else:
        paths = E.explore(body)
    res['paths'] = len(paths)
    res['queries'] += E.stats['solver_queries']
    res['solver_time'] += E.stats['solver_time']
    T = S.term_of
    tags = {}
    for p in paths:
        res['obligations'] += 1
        if p.exc is not None:
            tag = 'fold/exception/%s' % type(p.exc).__name__
            tags[tag] = tags.get(tag, 0) + 1
            if tags[tag] <= 1:
                res['cex'].append({'tag': tag, 'what': 'loop body raised %r (R=%d, %s step, students=%d)' % (p.exc, R, mode, nst),
                                   'data': {'kind': 'fold', 'R': R, 'ns': nst, 'mode': mode}})
            continue
        rec, pre, sv = p.notes['rec'], p.notes['pre'], p.result
        r = {'size': T(rec['size']), 'cost': [T(x) for x in rec['cost']], 'sq': [T(x) for x in rec['sq']], 'deg': T(rec['deg']),
             'prof': [T(x) for x in rec['prof']], 'md': T(rec['md']), 'sd': T(rec['sd'])}
        v = rec['valid'].t
        post = {'size': sv.optimal_size, 'cost': sv.optimal_maxsizemincost, 'sq': sv.optimal_maxsizeminsqcost, 'deg': sv.optimal_maxsizemindegree,
                'gen': sv.optimal_generousmaxprofile, 'gre': sv.optimal_greedymaxprofile, 'allgre': sv.optimal_greedyprofile,
                'md': sv.optimal_max_lec_abs_diff, 'sd': sv.optimal_sum_lec_abs_diff}
        claims = []
        shapes_ok = (isinstance(post['cost'], tuple) and len(post['cost']) == 2 and isinstance(post['sq'], tuple) and len(post['sq']) == 2 and
                     all(isinstance(post[k], list) and len(post[k]) == R for k in ('gen', 'gre', 'allgre')))
        if not shapes_ok:
            claims.append(('every profile has one entry per rank / cost pairs are pairs', z3.BoolVal(False)))
        else:
            if pre is None:
                want = {'size': r['size'], 'cost': r['cost'], 'sq': r['sq'], 'deg': r['deg'], 'gen': r['prof'], 'gre': r['prof'],
                        'allgre': r['prof'], 'md': r['md'], 'sd': r['sd']}
            else:
                s0 = {k: ([T(x) for x in pre[k]] if isinstance(pre[k], (list, tuple)) else T(pre[k])) for k in pre}
                bigger = z3.And(v, r['size'] > s0['size'])
                same = z3.And(v, r['size'] == s0['size'])
                want = {
                    'size': z3.If(bigger, r['size'], s0['size']),
                    'cost': ite_vec(z3.Or(bigger, z3.And(same, lexlt(r['cost'], s0['cost']))), r['cost'], s0['cost']),
                    'sq': ite_vec(z3.Or(bigger, z3.And(same, lexlt(r['sq'], s0['sq']))), r['sq'], s0['sq']),
                    'deg': z3.If(z3.Or(bigger, z3.And(same, r['deg'] < s0['deg'])), r['deg'], s0['deg']),
                    'gen': ite_vec(z3.Or(bigger, z3.And(same, moregen_spec(r['prof'], s0['gen']))), r['prof'], s0['gen']),
                    'gre': ite_vec(z3.Or(bigger, z3.And(same, moregre_spec(r['prof'], s0['gre']))), r['prof'], s0['gre']),
                    'allgre': ite_vec(z3.And(v, moregre_spec(r['prof'], s0['allgre'])), r['prof'], s0['allgre']),
                    'md': z3.If(z3.And(v, r['md'] < s0['md']), r['md'], s0['md']),
                    'sd': z3.If(z3.And(v, r['sd'] < s0['sd']), r['sd'], s0['sd']),
                }
            for k in want:
                if isinstance(want[k], list):
                    claims.append((k, z3.And([T(a) == b for a, b in zip(post[k], want[k])])))
                else:
                    claims.append((k, T(post[k]) == want[k]))
        rr, m = S.holds(p.pc, z3.And([c for _, c in claims]))
        res['queries'] += 1
        res['nontrivial'] += 1
        if rr == 'unsat':
            res['discharged'] += 1
        elif rr == 'unknown':
            res['unknown'] += 1
        else:
            bad = [k for k, c in claims if S.holds(p.pc, c)[0] != 'unsat']
            tag = 'fold/%s/%s' % (mode, '+'.join(bad))
            tags[tag] = tags.get(tag, 0) + 1
            if tags[tag] <= 2:
                ev = lambda t: m.eval(t, model_completion=True)
                val = lambda x: (z3.is_true(ev(x.t)) if isinstance(x, S.SymBool) else ev(T(x)).as_long())
                conc = lambda d_: {k: ([val(x) for x in v_] if isinstance(v_, (list, tuple)) else val(v_)) for k, v_ in d_.items()}
                res['cex'].append({'tag': tag, 'what': 'loop body does not implement the fold step for: %s (R=%d, %s step, students=%d)' % (bad, R, mode, nst),
                                   'data': {'kind': 'fold', 'R': R, 'ns': nst, 'nl': nl, 'mode': mode, 'bad': bad,
                                            'rec': conc(rec), 'pre': conc(pre) if pre is not None else None}})
    res['sample'] = dict(task, paths=len(paths))
    return res


# ---------------------------------------------------------------------------
# (b) is_valid
# ---------------------------------------------------------------------------
def valid_task(task, res):
    I = lpchecks.shape_from(task['shape'])
    pc = task['pc']
    nsm = repo.load('shim')

    def body():
        e = S.engine()
        run = e2.run_e2(I, {'pc'} if pc else set(), [], solve=False, argv_extra=['-bf'])
        sv = run.solver
        solver = nsm.bf.Brute_force_solver(sv.options_parser.instance_options, sv.model)
        J = run.inst
        outs = []
        for matching in itertools.product(range(J.np + 1), repeat=J.ns):
            pairs = solver.get_matching_pairs(matching)
            outs.append((matching, [None if pr is None else (pr.studentID, pr.projectID) for pr in pairs], solver.is_valid(pairs)))
        e.notes['J'] = J
        return outs

    # one exploration per matching would repeat the parse; instead explore all matchings in one run
    # (forks multiply across matchings), so bound by exploring matchings one at a time:
    J0 = None
    allm = list(itertools.product(range(I.np + 1), repeat=I.ns))
    for matching in allm:
        def body1(matching=matching):
            e = S.engine()
            run = e2.run_e2(I, {'pc'} if pc else set(), [], solve=False, argv_extra=['-bf'])
            sv = run.solver
            solver = nsm.bf.Brute_force_solver(sv.options_parser.instance_options, sv.model)
            e.notes['J'] = run.inst
            pairs = solver.get_matching_pairs(matching)
            e.notes['pairs'] = [None if pr is None else (pr.studentID, pr.projectID) for pr in pairs]
            return solver.is_valid(pairs)
        E = S.Engine(max_paths=4096, timeout=600)
        paths = E.explore(body1)
        res['paths'] += len(paths)
        res['queries'] += E.stats['solver_queries']
        res['solver_time'] += E.stats['solver_time']
        for p in paths:
            res['obligations'] += 1
            J = p.notes.get('J')
            Jd = spec.Inst(J.na, J.ns, J.np, J.nl, J.prefs, J.plec, None, J.plq, J.puq, J.llq, J.lt, J.luq)
            acceptable = all(m == 0 or any((s + 1, m) == (a, b) for (a, b, _) in Jd.pairs()) for s, m in enumerate(matching))
            if p.exc is not None:
                res['cex'].append({'tag': 'valid/exception/%s' % type(p.exc).__name__, 'what': 'is_valid raised %r' % (p.exc,),
                                   'data': _vdata(task, matching, J, p.pc)})
                continue
            want_pairs = [(s + 1, m) if any((s + 1, m) == (a, b) for (a, b, _) in Jd.pairs()) else None for s, m in enumerate(matching) if m != 0]
            if p.notes['pairs'] != want_pairs:
                res['cex'].append({'tag': 'valid/get_matching_pairs', 'what': 'get_matching_pairs%s returned %s' % (matching, p.notes['pairs']),
                                   'data': _vdata(task, matching, J, p.pc)})
                continue
            if acceptable:
                x = {(s, pp): (1 if matching[s - 1] == pp else 0) for (s, pp, _) in Jd.pairs()}
                want = spec.valid(Jd, x, pc, Z)
            else:
                want = z3.BoolVal(False)
            got = p.result
            claim = want if got is True else (z3.Not(want) if got is False else z3.BoolVal(False))
            r, m = S.holds(p.pc, claim)
            res['queries'] += 1
            res['nontrivial'] += 1 if any(matching) else 0
            if r == 'unsat':
                res['discharged'] += 1
            elif r == 'unknown':
                res['unknown'] += 1
            else:
                d = _vdata(task, matching, J, None, m)
                res['cex'].append({'tag': 'valid/%s/%s' % ('pc' if pc else 'nopc', 'accepts-invalid' if got else 'rejects-valid'),
                                   'what': 'is_valid returned %s for assignment %s but the matching is %s' % (got, matching, 'invalid' if got else 'valid'), 'data': d})
    res['sample'] = {'kind': 'valid', 'shape': task['shape'], 'pc': pc, 'assignments': len(allm)}
    return res


def _vdata(task, matching, J, pc=None, m=None):
    if m is None:
        s = z3.Solver()
        s.add(*pc)
        m = s.model() if s.check() == z3.sat else None
    d = {'kind': 'valid', 'pc': task['pc'], 'matching': list(matching)}
    if m is not None:
        d['inst'] = rp.inst_to_data(rp.concretize_inst(J, m))
    return d


# ---------------------------------------------------------------------------
# (c) end-to-end
# ---------------------------------------------------------------------------
def expected_bf(I, pc):
    fs = spec.feasible_set(I, pc, False)
    if not fs:
        return None
    xs = [x for _, x in fs]
    ms = max(spec.size(I, x, P) for x in xs)
    top = [x for x in xs if spec.size(I, x, P) == ms]
    R = I.max_rank()
    gen_key = lambda x: tuple(reversed(spec.profile(I, x, P)))
    return {
        'optimal_size': ms,
        'optimal_maxsizemincost': min(tuple(spec.cost(I, x, P)) for x in top),
        'optimal_maxsizemindegree': min(spec.degree(I, x, P) for x in top),
        'optimal_maxsizeminsqcost': min(tuple(spec.cost(I, x, P, sq=True)) for x in top),
        'optimal_generousmaxprofile': list(reversed(min(gen_key(x) for x in top))),
        'optimal_greedymaxprofile': list(max(tuple(spec.profile(I, x, P)) for x in top)),
        'optimal_greedyprofile': list(max(tuple(spec.profile(I, x, P)) for x in xs)),
        'optimal_max_lec_abs_diff': min(spec.maxdev(I, x, P) for x in xs),
        'optimal_sum_lec_abs_diff': min(spec.sumdev(I, x, P) for x in xs),
    }


def e2e_run(d):
    I = lpchecks.shape_from(d['shape']).with_numerics(*d['num'])
    flags = set((['pc'] if d['pc'] else []) + (['twopl'] if d['twopl'] else []))
    out = rp.real_solve(I, flags, [], bf=True)
    Id = I if d['twopl'] else spec.Inst(I.na, I.ns, I.np, I.nl, I.prefs, I.plec, None, I.plq, I.puq, I.llq, I.lt, I.luq)
    want = expected_bf(Id, d['pc'])
    hdr = 'instance (-bf%s%s):\n%s' % (' -pc' if d['pc'] else '', ' -twopl' if d['twopl'] else '', spec.inst_to_text(I, trailer=False))
    if out['exc']:
        return True, 'raises', hdr + 'brute-force run raised ' + out['exc']
    pr = out['parsed']
    if want is None:
        ok = pr['infeasible_bf'] and pr['optimal_size'] is None
        return (not ok), 'infeasible', hdr + 'no valid matching exists; output ends with %r' % out['text'][-40:]
    if pr['infeasible_bf']:
        return True, 'infeasible', hdr + 'valid matchings exist but brute force prints Infeasible'
    bad = [k for k in want if pr.get(k) != want[k]]
    return bool(bad), '+'.join(bad), hdr + 'printed vs true optimum: ' + '; '.join('%s %s / %s' % (k, pr.get(k), want[k]) for k in (bad or want))


def run_task(task):
    res = {'obligations': 0, 'discharged': 0, 'unknown': 0, 'cex': [], 'queries': 0, 'solver_time': 0.0,
           'paths': 0, 'nontrivial': 0, 'controls': {}}
    if task['kind'] == 'fold':
        return fold_task(task, res)
    if task['kind'] == 'valid':
        return valid_task(task, res)
    res['obligations'] += 1
    bad, what, detail = e2e_run(task)
    res['nontrivial'] = 1
    if bad:
        res['cex'].append({'tag': 'e2e/%s' % what, 'what': 'brute-force output differs from the true optimum: %s' % what, 'data': dict(task)})
    else:
        res['discharged'] += 1
    res['sample'] = {'kind': 'e2e', 'detail': detail[-300:]}
    return res


def fold_concrete(d):
    """one iteration of the REAL loop body from a concrete accumulator state with a concrete record
    (the statistic helpers return the record's numbers); returns (bad, text)"""
    nsm = repo.load('real')
    bfm = nsm.bf
    R, nst, nl = d['R'], d['ns'], d.get('nl', 1)
    I = spec.Inst(3, nst, R, nl, [[[k + 1] for k in range(R)] for _ in range(nst)], [1] * R, None, [0] * R, [nst] * R,
                  [0] * nl, [0] * nl, [2] * nl)
    import os, shutil, tempfile
    tmp = tempfile.mkdtemp(prefix='vf_c07f_')
    try:
        path = os.path.join(tmp, 'i.txt')
        with open(path, 'w') as f:
            f.write(spec.inst_to_text(I))
        sv = nsm.solver.Solver(['-f', path, '-na', '3', '-bf'])
    finally:
        shutil.rmtree(tmp, ignore_errors=True)
    model = sv.model
    solver = bfm.Brute_force_solver(sv.options_parser.instance_options, model)
    rec, pre = d['rec'], d['pre']
    mark = Mark()
    mark.size = rec['size']
    solver.get_matching_pairs = lambda *a, **k: mark
    solver.is_valid = lambda *a, **k: bool(rec['valid'])
    model._get_cost = lambda *a, **k: tuple(rec['cost'])
    model._get_cost_sq = lambda *a, **k: tuple(rec['sq'])
    model._get_degree = lambda *a, **k: rec['deg']
    model._get_profile = lambda *a, **k: list(rec['prof'])
    model._get_max_lec_abs_diff = lambda *a, **k: rec['md']
    model._get_sum_lec_abs_diff = lambda *a, **k: rec['sd']

    def my_product(*a, **k):
        if pre is not None:
            solver.optimal_size = pre['size']
            solver.optimal_maxsizemincost = tuple(pre['cost'])
            solver.optimal_maxsizeminsqcost = tuple(pre['sq'])
            solver.optimal_maxsizemindegree = pre['deg']
            solver.optimal_generousmaxprofile = list(pre['gen'])
            solver.optimal_greedymaxprofile = list(pre['gre'])
            solver.optimal_greedyprofile = list(pre['allgre'])
            solver.optimal_max_lec_abs_diff = pre['md']
            solver.optimal_sum_lec_abs_diff = pre['sd']
        yield tuple([0] * nst)
    saved = (getattr(bfm, 'len', None), bfm.product)
    bfm.len = lambda x: rec['size'] if x is mark else builtins.len(x)
    bfm.product = my_product
    try:
        try:
            solver.run()
        except Exception as e:  # noqa
            return True, 'real loop body raised %r from accumulator state %s with record %s' % (e, pre, rec)
    finally:
        bfm.product = saved[1]
        if saved[0] is None:
            del bfm.len
        else:
            bfm.len = saved[0]
    post = {'size': solver.optimal_size, 'cost': tuple(solver.optimal_maxsizemincost) if isinstance(solver.optimal_maxsizemincost, (tuple, list)) else solver.optimal_maxsizemincost,
            'sq': tuple(solver.optimal_maxsizeminsqcost) if isinstance(solver.optimal_maxsizeminsqcost, (tuple, list)) else solver.optimal_maxsizeminsqcost,
            'deg': solver.optimal_maxsizemindegree, 'gen': list(solver.optimal_generousmaxprofile), 'gre': list(solver.optimal_greedymaxprofile),
            'allgre': list(solver.optimal_greedyprofile), 'md': solver.optimal_max_lec_abs_diff, 'sd': solver.optimal_sum_lec_abs_diff}
    v = bool(rec['valid'])
    prof = list(rec['prof'])
    if pre is None:
        want = {'size': rec['size'], 'cost': tuple(rec['cost']), 'sq': tuple(rec['sq']), 'deg': rec['deg'], 'gen': prof, 'gre': prof,
                'allgre': prof, 'md': rec['md'], 'sd': rec['sd']}
    else:
        bigger = v and rec['size'] > pre['size']
        same = v and rec['size'] == pre['size']
        gen_key = lambda p_: tuple(reversed(p_))
        want = {'size': rec['size'] if bigger else pre['size'],
                'cost': tuple(rec['cost']) if bigger or (same and tuple(rec['cost']) < tuple(pre['cost'])) else tuple(pre['cost']),
                'sq': tuple(rec['sq']) if bigger or (same and tuple(rec['sq']) < tuple(pre['sq'])) else tuple(pre['sq']),
                'deg': rec['deg'] if bigger or (same and rec['deg'] < pre['deg']) else pre['deg'],
                'gen': prof if bigger or (same and gen_key(prof) < gen_key(pre['gen'])) else list(pre['gen']),
                'gre': prof if bigger or (same and tuple(prof) > tuple(pre['gre'])) else list(pre['gre']),
                'allgre': prof if v and tuple(prof) > tuple(pre['allgre']) else list(pre['allgre']),
                'md': rec['md'] if v and rec['md'] < pre['md'] else pre['md'],
                'sd': rec['sd'] if v and rec['sd'] < pre['sd'] else pre['sd']}
    wrong = {k: (post[k], want[k]) for k in want if post[k] != want[k]}
    return bool(wrong), 'real loop body (max rank %d, %d students) from accumulator state %s with %s record %s: got vs expected %s' % (
        R, nst, pre if pre is not None else '<initial values>', 'valid' if v else 'invalid', {k: rec[k] for k in rec if k != 'valid'}, wrong or 'all equal')


def replay(cex):
    d = cex['data']
    if d['kind'] == 'e2e':
        bad, what, detail = e2e_run(d)
        return bad, detail
    if d['kind'] == 'valid':
        if 'inst' not in d:
            return False, 'no instance'
        I = rp.inst_from_data(d['inst'])
        ns = repo.load('real')
        import os, shutil, tempfile
        tmp = tempfile.mkdtemp(prefix='vf_c07r_')
        try:
            path = os.path.join(tmp, 'i.txt')
            with open(path, 'w') as f:
                f.write(spec.inst_to_text(I))
            sv = ns.solver.Solver(['-f', path, '-na', str(I.na), '-bf'] + (['-pc'] if d['pc'] else []))
        finally:
            shutil.rmtree(tmp, ignore_errors=True)
        solver = ns.bf.Brute_force_solver(sv.options_parser.instance_options, sv.model)
        Id = spec.Inst(I.na, I.ns, I.np, I.nl, I.prefs, I.plec, None, I.plq, I.puq, I.llq, I.lt, I.luq)
        m = d['matching']
        x = spec.x_from_matching_line(Id, m)
        want = x is not None and spec.valid(Id, x, d['pc'], P)
        try:
            got = solver.is_valid(solver.get_matching_pairs(tuple(m)))
        except Exception as e:  # noqa
            return True, 'instance:\n%sassignment %s: is_valid raised %r' % (spec.inst_to_text(I, trailer=False), m, e)
        return got != want, 'instance:\n%sassignment %s (-pc %s): is_valid -> %s, specification -> %s' % (spec.inst_to_text(I, trailer=False), m, d['pc'], got, want)
    # fold counterexamples: search the small concrete grid for an instance showing it end to end
    rng = random.Random(7)
    cands = [s for s in shapes.corner_shapes() if s.ns <= 3]
    for I in cands:
        R = I.max_rank()
        for trial in range(30):
            plq = [rng.choice([0, 0, 1]) for _ in range(I.np)]
            puq = [max(q, rng.choice([0, 1, 2])) for q in plq]
            if I.na == 3:
                llq = [0] * I.nl
                lt = [rng.choice([0, 1, 2]) for _ in range(I.nl)]
                luq = [max(t, rng.choice([1, 2, 3])) for t in lt]
            else:
                llq, lt, luq = list(plq), list(puq), list(puq)
            dd = {'kind': 'e2e', 'shape': lpchecks.shape_data(I), 'num': [plq, puq, llq, lt, luq], 'pc': bool(trial % 2),
                  'twopl': I.lprefs is not None and trial % 3 != 0}
            bad, what, detail = e2e_run(dd)
            if bad:
                return True, 'fold-step counterexample (%s) shown end to end:\n%s' % (cex['what'], detail)
    # not shown end to end by the small grid: replay the counterexample itself on the real loop body
    if d.get('rec') is not None:
        bad, text = fold_concrete(d)
        return bad, 'fold-step counterexample (%s), replayed on the real loop body (statistic helpers return the record):\n%s' % (cex['what'], text)
    return False, 'no concrete instance in the replay grid exhibits the fold-step counterexample'


def describe_task(t):
    return {k: v for k, v in t.items()}


def task_cost(t):
    if t['kind'] == 'fold':
        return 10 ** 6 if t['mode'] == 'step' else 10 ** 4
    if t['kind'] == 'valid':
        sh = t['shape']
        return (sh['np'] + 1) ** sh['ns'] * 20
    return 5


if __name__ == '__main__':
    raise SystemExit(harness.main(__import__('sys').modules[__name__]))
