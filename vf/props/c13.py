"""C13 - ties written by the generator are read back as the same ties by the solver."""
import io
import os
import shutil
import tempfile

import z3

from .. import harness, repo
from .. import sym as S

ID = 'C13'
LEVEL = 'other'
ENGINE = 'pathsym (z3 path feasibility + validity of per-path claims); CrossHair 0.0.110 as independent second engine on fixed n'
FUNCTIONS = ['generator_shared.create_string_pref', 'fileIO._get_simple_pref_list_and_ranks',
             'generator_ha_sm_hr.Generator_ha_sm_hr.create_instance', 'generator_spa.Generator_spa.create_instance',
             'fileIO._import_from_file/_create_pairs_row/_create_student_ranks/_set_lecturer_ranks']
EXPLANATION = (
    'Symbolic execution (pathsym) of the real writer create_string_pref with the n tie decisions as symbolic 0/1 integers, composed with the '
    'real reader _get_simple_pref_list_and_ranks, and with the real create_instance (HR and SPA) -> real _import_from_file on first- and '
    'second-side lists. Every feasible path is explored (2^(n-1) tie patterns are distinguished by the code; the decision on the last entry must '
    'not matter). Per path z3 proves, under the path condition: the emitted tokens have balanced, non-nested parentheses; tokens i and i+1 are in '
    'one group iff decision i is set (so runs are maximal, each of >= 2 entries); order preserved; the ranks read back start at 1, are equal for '
    'adjacent entries iff tied and otherwise increase by one. A claim that is not implied by the path condition yields a concrete tie vector, '
    'replayed on the real functions.')
ASSUMPTIONS = ['entries are pairwise-distinct concrete ids in a non-identity order (the writer/reader never look at their values beyond str/int)',
               'tie indicators are integers in {0,1} (what numpy.random.choice([0,1], ...) returns)']
LEVEL_TEXT = ('Path-exhaustive symbolic execution of the real writer and reader for every list length up to the bound, all tie-decision vectors '
              'covered by path conditions, claims discharged by z3; equivalent to all 2^n vectors per n within the bound.')
LEVEL_NOTE = 'Trusted: z3, vf/sym.py. Outside: list lengths above the bound (quick 10, thorough 13).'
TECHNIQUE = 'symbolic execution of create_string_pref o _get_simple_pref_list_and_ranks (symbolic tie decisions), z3 validity of per-path round-trip claims'
RULE = 'one task per (list length n, level: functions / HR file / SPA file); each feasible path is a case; non-trivial = path with at least one tie decision constrained'
EXHAUSTIVE = {'quick': True, 'thorough': True}


def BOUNDS(tier):  # (long lists: see tasks())
    return 'list length n = 1..%d, all tie-decision vectors (symbolic); file level: n <= %d, first and second side, 2-agent and 3-agent' % (
        (10, 7) if tier == 'quick' else (13, 10))


def tasks(tier, seed):
    N, NF = (10, 7) if tier == 'quick' else (13, 10)
    out = [{'n': n, 'level': 'func'} for n in range(1, N + 1)]
    # the generator hands first-side lists over as numpy arrays (fresh scalar object on every element access)
    out += [{'n': n, 'level': 'func', 'np_entries': True} for n in range(1, min(N, 8) + 1)]
    out += [{'n': n, 'level': lv} for n in range(1, NF + 1) for lv in ('hr', 'spa')]
    # long lists (indices beyond CPython's small-integer cache, identifiers with three digits): the tie decisions at the
    # start and the end are symbolic, the others follow a fixed pattern
    for n in ((300,) if tier == 'quick' else (300, 1100)):
        for pat in (0, 1):
            out.append({'n': n, 'level': 'func', 'free': [0, n - 3, n - 2, n - 1], 'pattern': pat, 'np_entries': bool(pat)})
    # second engine: CrossHair (crosshair-tool) on the same round trip, fixed n, symbolic booleans
    out += [{'n': n, 'level': 'crosshair'} for n in ((4, 6) if tier == 'quick' else (3, 5, 6, 8))]
    return out


def entries(n):
    # non-identity order of 1..n
    lo, hi, out = 1, n, []
    while lo <= hi:
        out.append(hi)
        if lo != hi:
            out.append(lo)
        lo, hi = lo + 1, hi - 1
    return out


def groups_of_tokens(tokens):
    """independent structural reading of emitted tokens -> list of groups of
    entry indices, or None if parentheses are unbalanced / nested / misplaced"""
    groups, cur = [], None
    for i, t in enumerate(tokens):
        o, c = t.count('('), t.count(')')
        if o > 1 or c > 1 or (o and not t.startswith('(')) or (c and not t.endswith(')')) or (o and c):
            return None
        if o:
            if cur is not None:
                return None
            cur = [i]
        elif c:
            if cur is None:
                return None
            cur.append(i)
            groups.append(cur)
            cur = None
        elif cur is not None:
            cur.append(i)
        else:
            groups.append([i])
    if cur is not None:
        return None
    return groups


def check_tokens(tokens, ents, ties_t):
    """claims about writer output; returns list of (name, z3 claim)"""
    n = len(ents)
    claims = []
    g = groups_of_tokens(tokens)
    ok = g is not None and len(tokens) == n and [int(t.strip('()')) for t in tokens] == ents
    claims.append(('balanced, non-nested, order preserved', z3.BoolVal(bool(ok))))
    if ok:
        gid = {}
        for k, grp in enumerate(g):
            for i in grp:
                gid[i] = k
        for i in range(n - 1):
            same = gid[i] == gid[i + 1]
            claims.append(('entries %d,%d grouped iff decision %d' % (i, i + 1, i),
                           (ties_t[i] != 0) == z3.BoolVal(same)))
        claims.append(('every run has >= 2 entries or is a single entry',
                       z3.BoolVal(all(len(grp) >= 1 for grp in g))))
    return claims


def check_ranks(ranks, ties_t, n):
    claims = [('ranks start at 1', z3.BoolVal(n == 0 or ranks[0] == 1))]
    for i in range(n - 1):
        claims.append(('rank step %d' % i,
                       z3.If(ties_t[i] != 0, z3.BoolVal(ranks[i + 1] == ranks[i]),
                             z3.BoolVal(ranks[i + 1] == ranks[i] + 1))))
    return claims


CH_TEMPLATE = '''
import sys
sys.path.insert(0, %(repo)r)
from typing import List
from matchingproblems.generator.generator_shared import create_string_pref
from matchingproblems.solver import fileIO as _fio
_get_simple_pref_list_and_ranks = getattr(_fio, %(reader)r)

ENTS = %(ents)r


def expected(ties: List[bool]) -> List[int]:
    out, r = [], 1
    for i in range(len(ENTS)):
        out.append(r)
        if i < len(ENTS) - 1 and not ties[i]:
            r += 1
    return out


def roundtrip(%(params)s) -> List[int]:
    """
    post: _ == expected([%(names)s])
    """
    ties = [%(names)s]
    toks = create_string_pref(list(ENTS), ties)
    simp, ranks = _get_simple_pref_list_and_ranks(toks)
    assert simp == ENTS
    return ranks
'''


def crosshair_task(task, res):
    import subprocess
    import sys as _sys
    n = task['n']
    names = ['t%d' % i for i in range(n)]
    src = CH_TEMPLATE % {'repo': repo.REPO, 'reader': find_reader(repo.load('real')).__name__, 'ents': entries(n), 'params': ', '.join('%s: bool' % x for x in names), 'names': ', '.join(names)}
    d = tempfile.mkdtemp(prefix='vf_c13ch_')
    try:
        path = os.path.join(d, 'h13.py')
        with open(path, 'w') as f:
            f.write(src)
        r = subprocess.run([_sys.executable, '-m', 'crosshair', 'check', '--report_all', '--per_condition_timeout', '90', path],
                           capture_output=True, text=True, cwd=d, timeout=600)
        out = r.stdout + r.stderr
    finally:
        shutil.rmtree(d, ignore_errors=True)
    res['obligations'] += 1
    res['nontrivial'] = 1
    res['paths'] = 1
    import re as _re
    if 'Confirmed over all paths' in out:
        res['discharged'] += 1
        res['controls']['crosshair_confirmed'] = 1
    else:
        m = _re.search(r'roundtrip\(([^)]*)\)', out)
        if m and ('error' in out):
            vals = [1 if 'True' in a else 0 for a in m.group(1).split(',')]
            res['cex'].append({'tag': 'crosshair/roundtrip', 'what': 'CrossHair counterexample: ' + out.strip().split('\n')[-1][:200],
                               'data': {'n': n, 'level': 'func', 'ties': vals[:n]}})
        else:
            # second engine inconclusive: does not affect the verdict (pathsym is the deciding engine)
            res['obligations'] -= 1
            res['controls']['crosshair_inconclusive'] = 1
    res['sample'] = {'n': n, 'level': 'crosshair', 'output': out.strip()[-200:]}
    return res


_reader_cache = {}


def find_reader(ns):
    """the reader's tie-aware tokeniser: a private helper of fileIO that may be renamed, so it is located by what it
    does (one list of tokens -> (entries, dense ranks)) rather than by name; None if no such function exists"""
    if 'f' not in _reader_cache:
        import inspect
        found = getattr(ns.fileIO, '_get_simple_pref_list_and_ranks', None)
        if found is None:
            for name, fn in vars(ns.fileIO).items():
                if inspect.isfunction(fn) and fn.__module__ == ns.fileIO.__name__:
                    try:
                        if len(inspect.signature(fn).parameters) == 1 and fn(['(7', '5)', '9']) == ([7, 5, 9], [1, 1, 2]):
                            found = fn
                            break
                    except Exception:  # noqa
                        continue
        _reader_cache['f'] = found
    return _reader_cache['f']


def roundtrip(ns, n, level, ties, np_entries=False):
    """the code under test: writer -> (file) -> reader; ties symbolic or concrete"""
    ents = entries(n)
    if level == 'func':
        import numpy as _np
        toks = ns.gshared.create_string_pref(_np.array(ents) if np_entries else list(ents), ties)
        toks = [str(t) for t in toks]
        simp, ranks = find_reader(ns)(list(toks))
        return {'tokens': toks, 'lists': [(simp, ranks)]}
    d = tempfile.mkdtemp(prefix='vf_c13_')
    try:
        if level == 'hr':
            # n residents-side list on resident 1 over n hospitals; hospital 1 ranks n residents
            n1 = n2 = n
            res_lists = [list(ents)] + [[((i + k) % n) + 1 for k in range(1)] for i in range(1, n1)]
            res_ties = [ties] + [[0] for _ in range(1, n1)]
            hosp_lists = [list(ents)] + [[1] for _ in range(1, n2)]
            hosp_ties = [ties] + [[0] for _ in range(1, n2)]
            # make lists consistent: everyone ranks hospital 1, resident 1 ranks everyone
            res_lists = [list(ents)] + [[1] for _ in range(1, n1)]
            text = ns.ghr.Generator_ha_sm_hr().create_instance(
                n1, n2, res_lists, res_ties, hosp_lists, hosp_ties, [0] * n2, [n1] * n2, 'info\n')
            na = 2
        else:
            n1 = n2 = n
            n3 = 1
            st_lists = [list(ents)] + [[1] for _ in range(1, n1)]
            st_ties = [ties] + [[0] for _ in range(1, n1)]
            text = ns.gspa.Generator_spa().create_instance(
                n1, n2, n3, st_lists, st_ties, [1] * n2, [0] * n2, [n1] * n2,
                [list(ents)], [ties], [0], [0], [n1], 'info\n')
            na = 3
        path = os.path.join(d, 'i.txt')
        with open(path, 'w') as f:
            f.write(text)
        opts = {ns.enums.Instance_options.NUMAGENTS: na, ns.enums.Instance_options.TWOPL: True,
                ns.enums.Instance_options.PC: False}
        model = ns.fileIO.import_model(path, opts)
    finally:
        shutil.rmtree(d, ignore_errors=True)
    row = model.pairs[0]
    first = ([p.projectID for p in row], [p.rank_student for p in row])
    # second side: lecturer/hospital 1's ranks of students, in the written order
    second_ranks = []
    for sidx in ents:
        pr = [q for q in model.pairs[sidx - 1] if q.lecturerID == 1][0]
        second_ranks.append(pr.rank_lecturer)
    lines = text.split('\n')
    return {'tokens': lines[1].split(':')[1].split(),
            'tokens2': lines[n1 + 1].split(':')[3 if na == 2 else 4].split() if na == 2 else lines[n1 + n2 + 1].split(':')[4].split(),
            'lists': [first, (list(ents), second_ranks)]}



def run_task(task):
    n, level = task['n'], task['level']
    if level in ('func', 'crosshair') and find_reader(repo.load('real')) is None:
        # the function-level round trip needs the tokeniser as a separate function; without it the file-level tasks
        # (public import path) carry the property
        return {'obligations': 0, 'discharged': 0, 'unknown': 0, 'cex': [], 'queries': 0, 'solver_time': 0.0, 'paths': 0,
                'nontrivial': 0, 'controls': {'func_level_skipped_no_tokeniser_function': 1}, 'sample': dict(task)}
    if level == 'crosshair':
        return crosshair_task(task, {'obligations': 0, 'discharged': 0, 'unknown': 0, 'cex': [], 'queries': 0, 'solver_time': 0.0,
                                     'paths': 0, 'nontrivial': 0, 'controls': {}})
    ns = repo.load('real')
    ents = entries(n)
    res = {'obligations': 0, 'discharged': 0, 'unknown': 0, 'cex': [], 'queries': 0, 'solver_time': 0.0,
           'paths': 0, 'nontrivial': 0, 'controls': {}}

    def body():
        e = S.engine()
        free = task.get('free')
        if free is None:
            ties = [e.fresh_int('t') for _ in range(n)]
        else:
            # pattern 0: no ties; pattern 1: runs of three (1, 1, 0, 1, 1, 0, ...)
            ties = [e.fresh_int('t') if i in free else (0 if task['pattern'] == 0 else (1 if i % 3 != 2 else 0)) for i in range(n)]
        for t in ties:
            if S.is_sym(t):
                e.assume((t == 0) | (t == 1))
        tt = [t.t if S.is_sym(t) else z3.IntVal(t) for t in ties]
        e.notes['ties'] = tt
        return roundtrip(ns, n, level, ties, np_entries=task.get('np_entries', False))

    E = S.Engine(max_paths=20000, timeout=900)
    paths = E.explore(body)
    res['paths'] = len(paths)
    res['queries'] += E.stats['solver_queries']
    res['solver_time'] += E.stats['solver_time']
    for p in paths:
        tt = p.notes.get('ties')
        if p.exc is not None:
            res['obligations'] += 1
            m = _model(p.pc, tt)
            res['cex'].append({'tag': 'exception/%s' % type(p.exc).__name__, 'what': 'exception %r' % (p.exc,),
                               'data': {'n': n, 'level': level, 'ties': m}})
            continue
        out = p.result
        claims = []
        claims += [('writer: ' + a, b) for a, b in check_tokens(out['tokens'], ents, tt)]
        if 'tokens2' in out:
            claims += [('writer (second side): ' + a, b) for a, b in check_tokens(out['tokens2'], ents, tt)]
        for simp, ranks in out['lists']:
            claims.append(('reader: entries preserved', z3.BoolVal(list(simp) == ents)))
            claims += [('reader: ' + a, b) for a, b in check_ranks(ranks, tt, n)]
        res['nontrivial'] += 1 if len(p.pc) > n else 0
        for name, c in claims:
            res['obligations'] += 1
            r, m = S.holds(p.pc, c)
            res['queries'] += 1
            if r == 'unsat':
                res['discharged'] += 1
            elif r == 'unknown':
                res['unknown'] += 1
            else:
                tv = [m.eval(t, model_completion=True).as_long() for t in tt]
                res['cex'].append({'tag': 'roundtrip/%s' % name.split(':')[0], 'what': name,
                                   'data': {'n': n, 'level': level, 'ties': tv, 'np_entries': task.get('np_entries', False)}})
    res['sample'] = {'n': n, 'level': level, 'paths': len(paths),
                     'example_tokens': paths[0].result['tokens'] if paths and paths[0].exc is None else None}
    return res


def _model(pc, tt):
    s = z3.Solver()
    s.add(*pc)
    if s.check() != z3.sat:
        return None
    m = s.model()
    return [m.eval(t, model_completion=True).as_long() for t in tt]


def replay(cex):
    """concrete run of the real functions on the tie vector of the counterexample"""
    d = cex['data']
    ns = repo.load('real')
    n, ties = d['n'], d['ties']
    if ties is None:
        return False, 'no tie vector'
    ents = entries(n)
    import numpy as np
    level = d.get('level', 'func')
    if level not in ('func', 'hr', 'spa'):
        level = 'func'
    try:
        out = roundtrip(ns, n, level, np.array(ties), np_entries=d.get('np_entries', False))
    except Exception as e:  # noqa
        return True, 'entries %s ties %s (%s level): real functions raised %r' % (ents, ties, level, e)
    exp_ranks, r = [], 1
    for i in range(n):
        exp_ranks.append(r)
        if i < n - 1 and not ties[i]:
            r += 1
    exp_groups, cur = [], [0]
    for i in range(n - 1):
        if ties[i]:
            cur.append(i + 1)
        else:
            exp_groups.append(cur)
            cur = [i + 1]
    exp_groups.append(cur)
    bad = groups_of_tokens(out['tokens']) != exp_groups
    if 'tokens2' in out:
        bad = bad or groups_of_tokens(out['tokens2']) != exp_groups
    for simp, ranks in out['lists']:
        bad = bad or list(ranks) != exp_ranks or list(simp) != ents
    return bad, 'entries %s ties %s (%s level) -> text %r -> ranks read back %s (expected groups %s, ranks %s)' % (
        ents, ties, level, ' '.join(out['tokens']), [list(r_) for _, r_ in out['lists']], exp_groups, exp_ranks)


def describe_task(t):
    return t


def task_cost(t):
    if t.get('free'):
        return 2 ** len(t['free']) * 60
    return 2 ** t['n'] * (3 if t['level'] != 'func' else 1) * (50 if t['level'] == 'crosshair' else 1)


if __name__ == '__main__':
    raise SystemExit(harness.main(__import__('sys').modules[__name__]))
