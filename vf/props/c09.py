"""C09 - every generated instance is solvable by the solver under the documented flags."""
import contextlib
import io
import os
import random
import re
import shutil
import tempfile

import z3

from .. import harness, repo, rngstub, spec, lpchecks, replay as rp
from .. import sym as S
from . import c07, c08, c10

ID = 'C09'
LEVEL = 'other'
ENGINE = 'pathsym RNG exploration -> real files -> E2 obligations (z3) + brute force'
FUNCTIONS = ['generator.Generator (all RNG outcomes of tiny parameter vectors)', 'solver.Solver.__init__ / fileIO (loading every generated file with the documented flags)',
             'lp_solver.LP_Solver (all MILP points of the programs built for the file)', 'brute_force_solver.Brute_force_solver.run/get_results']
EXPLANATION = (
    'Composition checked on the real code. pathsym explores ALL random outcomes of the real generator for tiny parameter vectors of each type (RNG contract stubs; '
    'every symbolic value is finally enumerated, so each path is one concrete file and the set of paths is every file the generator can emit for that vector). Each '
    'distinct file is (1) loaded by the real Solver with -na 2 / -na 3 and -twopl exactly when generated two-sided, and the loaded Model is compared field by field '
    'with an independent reading of the file; (2) handed to the real LP builder under the recording PuLP stand-in: z3 decides over ALL MILP points that no point of '
    'the program is an invalid (unstable, with -stab) matching and that the program is feasible iff the specification says a feasible matching exists, for the flag '
    'sets admissible for the type (-pc, -stab on two-sided files) and sample criteria; (3) solved in -bf mode and compared with the exhaustive optimum / '
    'Infeasible verdict. Larger parameters are covered compositionally by C08 (files are in the grammar), C10/C12 (grammar files load as denoted, rank lookup total), C01/C02/C07.')
ASSUMPTIONS = ['RNG contracts of vf/rngstub.py', 'MILP back-end contract as in C01/C02']
LEVEL_TEXT = ('Exhaustive symbolic exploration of the generator\'s random outcomes for tiny parameter vectors; each emitted file is checked through the real '
              'loader (field identity), the real LP builder (SMT over all MILP points) and brute force.')
LEVEL_NOTE = 'Trusted: z3, vf/sym.py, RNG contracts, PuLP stand-in, vf/spec.py. Outside: parameter vectors beyond n <= 2 (covered only by composition of C08/C10/C12/C01/C02/C07).'
TECHNIQUE = 'symbolic execution of the real Generator enumerating every RNG outcome (contract stubs) -> each emitted file through the real loader, SMT validity/feasibility queries over the real LP (all MILP points) and brute force'
RULE = 'one task per parameter vector; each distinct emitted file is a case; non-trivial = file with at least one list of length >= 2 or a tie'
EXHAUSTIVE = {'quick': True, 'thorough': True}
NSPLIT = 6


def BOUNDS(tier):
    return ('parameter vectors: %d (ha, sm, hr, spa one-/two-sided; n1, n2 <= 2, n3 <= 2; tie probabilities 0 / 0.5 / 1); all RNG outcomes; flag sets: {}, -pc, '
            '(+ -twopl, -twopl -stab, -twopl -pc -stab on two-sided files); criteria none / maxsize / mincost; -bf with and without -pc' % (len(vectors(tier))))


def vectors(tier):
    V = [c08.vec('ha', n1=2, n2=2, pmin=1, pmax=2, uq=3, lq=1, t1=0.5),
         c08.vec('sm', n1=2, pmin=1, pmax=2, twopl=True, t1=0.5, t2=0.5),
         c08.vec('hr', n1=2, n2=2, pmin=1, pmax=2, uq=2, lq=1, twopl=True, t1=0.5, t2=0.5),
         c08.vec('spa', n1=2, n2=2, n3=2, pmin=1, pmax=2, uq=3, lq=1, luq=3, lt=2, t1=0.5),
         c08.vec('spa', n1=2, n2=2, n3=1, pmin=1, pmax=2, uq=2, luq=2, llq=1, lt=1, twopl=True, t1=0.5, t2=0.5),
         # only the required parameters (all defaults), ties of three agents on either side
         c08.vec('spa', n1=1, n2=2, n3=2, pmin=1, pmax=1, uq=2, luq=2),
         c08.vec('ha', n1=1, n2=3, pmin=3, pmax=3, uq=3, t1=0.5),
         c08.vec('hr', n1=3, n2=1, pmin=1, pmax=1, uq=3, twopl=True, t2=1.0),
         c08.vec('ha', n1=1, n2=4, pmin=4, pmax=4, uq=4, t1=1.0)]
    if tier == 'thorough':
        V += [c08.vec('hr', n1=2, n2=2, pmin=2, pmax=2, uq=3, twopl=True, t1=1.0, t2=0.5),
              c08.vec('ha', n1=2, n2=1, pmin=1, pmax=1, uq=1, t1=0.0),
              c08.vec('spa', n1=2, n2=2, n3=2, pmin=1, pmax=2, uq=2, luq=2, twopl=True, t1=0.5, t2=1.0),
              c08.vec('spa', n1=1, n2=2, n3=2, pmin=1, pmax=2, uq=4, lq=2, luq=4, llq=2, lt=2, twopl=True, t1=0.5, t2=0.5),
              c08.vec('sm', n1=2, pmin=2, pmax=2, twopl=True, t1=0.0, t2=1.0)]
    return V


SAMPLED = [c08.vec('hr', n1=6, n2=4, pmin=2, pmax=4, t1=0.2, t2=0.2, skew=5.0, lq=4, uq=6, twopl=True),
           c08.vec('spa', n1=6, n2=8, n3=4, pmin=3, pmax=5, t1=0.2, t2=0.2, skew=5.0, lq=4, uq=10, llq=1, lt=4, luq=10, twopl=True),
           c08.vec('sm', n1=12, pmin=12, pmax=12, twopl=True, t1=0.1, t2=0.1),
           c08.vec('ha', n1=11, n2=11, pmin=11, pmax=11, uq=11),
           c08.vec('spa', n1=12, n2=12, n3=5, pmin=2, pmax=4, uq=14, luq=15, t1=0.3)]


def tasks(tier, seed):
    out = [{'v': v, 'split': k} for v in vectors(tier) for k in range(NSPLIT)]
    # beyond the exhaustive vectors: instances of README size and with two-digit identifiers, generated with the real
    # RNG (seeded), through the same loader / LP obligations (validity over all MILP points, no exception)
    for v in SAMPLED:
        for k in range(1 if tier == 'quick' else 4):
            out.append({'v': v, 'sample': seed * 100 + k})
    return out


def all_files(ns, v, split=None):
    g = ns.gshared

    def body():
        e = S.engine()
        rec, restore = rngstub.install(g)
        tmp = tempfile.mkdtemp(prefix='vf_c09_')
        try:
            out = os.path.join(tmp, 'gen', 'instances')
            with contextlib.redirect_stderr(io.StringIO()):
                ns.generator.Generator(c08.argv_of(v, out))
            with open(os.path.join(out, '0.txt')) as f:
                text = f.read()
        finally:
            restore()
            shutil.rmtree(tmp, ignore_errors=True)
        # enumerate every value of every symbolic number in the file
        def sub(m):
            return str(e.concretize(e.tokens[m.group(0)]))
        return re.sub(r'@S\d+@', sub, text)
    E = S.Engine(max_paths=100000, timeout=2400)
    if split is None:
        paths = E.explore(body)
    else:
        E0 = S.Engine(max_paths=100000, timeout=1200)
        fr = E0.frontier(body, 7)
        if E0.stats.get('aborted'):
            raise RuntimeError('%d paths dropped by an infeasible stub assumption' % E0.stats['aborted'])
        mine = [p for i, p in enumerate(fr) if i % NSPLIT == split]
        paths = E.explore(body, prefixes=mine) if mine else []
    if E.stats.get('aborted'):
        raise RuntimeError('%d paths dropped by an infeasible stub assumption' % E.stats['aborted'])
    return E, paths


def run_task(task):
    res = {'obligations': 0, 'discharged': 0, 'unknown': 0, 'cex': [], 'queries': 0, 'solver_time': 0.0,
           'paths': 0, 'nontrivial': 0, 'controls': {}}
    v = task['v']
    ns = repo.load('real')
    if 'sample' in task:
        return sample_task(task, res, ns)
    E, paths = all_files(ns, v, task.get('split'))
    res['paths'] = len(paths)
    res['queries'] += E.stats['solver_queries']
    res['solver_time'] += E.stats['solver_time']
    files = []
    for p in paths:
        if p.exc is not None:
            res['obligations'] += 1
            res['cex'].append({'tag': 'generate/%s' % type(p.exc).__name__, 'what': 'generator raised %r' % (p.exc,), 'data': {'v': v}})
            continue
        if p.result not in files:
            files.append(p.result)
    res['controls']['distinct_files'] = len(files)
    na = 3 if v['mp'] == 'spa' else 2
    twopl = bool(v.get('twopl'))
    tags = {}

    def cex(tag, what, text, extra=None):
        tags[tag] = tags.get(tag, 0) + 1
        if tags[tag] <= 2:
            d = {'v': v, 'file': text}
            d.update(extra or {})
            res['cex'].append({'tag': tag, 'what': what, 'data': d})

    for text in files:
        # (1) load + compare with the independent reading
        res['obligations'] += 1
        try:
            J = spec.parse_text(text, na, twopl)
        except Exception as ex:  # noqa
            cex('format', 'generated file is not in the documented format: %r' % (ex,), text)
            continue
        if any(len(g_) > 1 for gs in J.prefs for g_ in gs) or any(sum(len(g_) for g_ in gs) > 1 for gs in J.prefs):
            res['nontrivial'] += 1
        bad = load_and_compare(ns, text, J, na, twopl)
        if bad:
            cex('load/%s' % bad[0], 'solver reading of the generated file: %s' % bad[1], text, {'stage': 'load'})
            continue
        res['discharged'] += 1
        # (2) LP over all MILP points
        shape = lpchecks.shape_data(J)
        num = [J.plq, J.puq, J.llq, J.lt, J.luq]
        flagsets = [[], ['pc']]
        if twopl:
            flagsets = [['twopl'], ['twopl', 'pc'], ['twopl', 'stab'], ['twopl', 'pc', 'stab']]
        for fl in flagsets:
            for seq in ([], [('maxsize', [])], [('mincost', [1, 1])]):
                t = {'prop': ID, 'shape': shape, 'flags': fl, 'seq': seq, 'forms': ['noexc', 'valid', 'feas'], 'wf': False, 'num': num}
                r = lpchecks.analyse(t)
                for k in ('obligations', 'discharged', 'unknown', 'queries', 'solver_time'):
                    res[k] += r[k]
                for c in r['cex']:
                    cex('lp/' + c['tag'], c['what'] + ' (flags %s, criteria %s)' % (fl, seq), text, {'stage': 'lp', 'inner': c})
                # Infeasible verdict correctness: spec infeasible => program of the first solve infeasible is implied by 'valid';
        # (3) brute force
        for pcf in (False, True):
            res['obligations'] += 1
            d = {'kind': 'e2e', 'shape': shape, 'num': num, 'pc': pcf, 'twopl': twopl}
            badb, what, detail = c07.e2e_run(d)
            if badb:
                cex('bf/%s' % what, 'brute force on the generated file: %s' % detail.split('\n')[-1], text, {'stage': 'bf', 'e2e': d})
            else:
                res['discharged'] += 1
    res['sample'] = {'v': v, 'rng_outcomes': len(paths), 'distinct_files': len(files), 'file': files[0] if files else None}
    return res


def sample_task(task, res, ns):
    import numpy as np
    v = task['v']
    np.random.seed(task['sample'])
    random.seed(task['sample'])
    tmp = tempfile.mkdtemp(prefix='vf_c09s_')
    try:
        out = os.path.join(tmp, 'gen', 'instances')
        with contextlib.redirect_stderr(io.StringIO()):
            ns.generator.Generator(c08.argv_of(v, out))
        with open(os.path.join(out, '0.txt')) as f:
            text = f.read()
    finally:
        shutil.rmtree(tmp, ignore_errors=True)
    na = 3 if v['mp'] == 'spa' else 2
    twopl = bool(v.get('twopl'))
    res['paths'] = 1
    res['nontrivial'] = 1
    res['obligations'] += 1
    J = spec.parse_text(text, na, twopl)
    bad = load_and_compare(ns, text, J, na, twopl)
    if bad:
        res['cex'].append({'tag': 'load/%s' % bad[0], 'what': 'solver reading of a generated file: %s' % bad[1], 'data': {'v': v, 'file': text, 'stage': 'load'}})
        return res
    res['discharged'] += 1
    shape = lpchecks.shape_data(J)
    num = [J.plq, J.puq, J.llq, J.lt, J.luq]
    for fl in ([['twopl'], ['twopl', 'stab']] if twopl else [[], ['pc']]):
        for seq in ([], [('maxsize', [])]):
            t = {'prop': ID, 'shape': shape, 'flags': fl, 'seq': seq, 'forms': ['noexc', 'valid'], 'wf': False, 'num': num}
            r = lpchecks.analyse(t)
            for k in ('obligations', 'discharged', 'unknown', 'queries', 'solver_time'):
                res[k] += r[k]
            for c in r['cex']:
                res['cex'].append({'tag': 'lp/' + c['tag'], 'what': c['what'] + ' (flags %s, criteria %s)' % (fl, seq),
                                   'data': {'v': v, 'file': text, 'stage': 'lp', 'inner': c}})
    res['sample'] = {'v': v, 'sampled_seed': task['sample'], 'file_head': text[:200]}
    return res


def load_and_compare(ns, text, J, na, twopl):
    tmp = tempfile.mkdtemp(prefix='vf_c09l_')
    try:
        path = os.path.join(tmp, 'i.txt')
        with open(path, 'w') as f:
            f.write(text)
        try:
            with contextlib.redirect_stderr(io.StringIO()):
                s = ns.solver.Solver(['-f', path, '-na', str(na)] + (['-twopl'] if twopl else []))
        except BaseException as e:  # noqa
            return ('raises', 'Solver() raised %r' % (e,))
    finally:
        shutil.rmtree(tmp, ignore_errors=True)
    Jd = J if twopl else spec.Inst(J.na, J.ns, J.np, J.nl, J.prefs, J.plec, None, J.plq, J.puq, J.llq, J.lt, J.luq)
    bad = [name for name, ok in c10.compare(s.model, Jd, twopl, lambda a, b: a == b) if not ok]
    return ('fields', 'differs in %s' % bad) if bad else None


def replay(cex):
    d = cex['data']
    ns = repo.load('real')
    v = d['v']
    if 'file' not in d:
        return c08.replay({'data': {'v': v}})
    text = d['file']
    na = 3 if v['mp'] == 'spa' else 2
    twopl = bool(v.get('twopl'))
    hdr = 'a file the generator can emit for %s:\n%s\n' % (c08.argv_of(v, 'OUT')[4:], text.split('\n\n')[0])
    try:
        J = spec.parse_text(text, na, twopl)
    except Exception as ex:  # noqa
        return True, hdr + 'not in the documented format: %r' % (ex,)
    stage = d.get('stage')
    if stage == 'load' or stage is None:
        bad = load_and_compare(ns, text, J, na, twopl)
        return bool(bad), hdr + (bad[1] if bad else 'loads as denoted')
    if stage == 'bf':
        badb, what, detail = c07.e2e_run(d['e2e'])
        return badb, hdr + detail
    ok, detail = lpchecks.replay_cex(d['inner'])
    return ok, hdr + detail


def describe_task(t):
    return t


def task_cost(t):
    v = t['v']
    if 'sample' in t:
        return 100
    return (3 if v.get('twopl') else 1) * (2 if v['mp'] == 'spa' else 1)


if __name__ == '__main__':
    raise SystemExit(harness.main(__import__('sys').modules[__name__]))
