"""C15 - the generator accepts every documented argument set and cleanly rejects invalid ones."""
import contextlib
import io
import itertools
import os
import random
import shutil
import tempfile

import z3

from .. import harness, repo
from .. import sym as S

ID = 'C15'
LEVEL = 'other'
ENGINE = 'pathsym through the real argparse front end (z3) + concrete witness runs of the real Generator'
FUNCTIONS = ['instance_options_parser.Instance_options_parser.parse/check_required_and_banned/set_defaults/check_bounds/get_matching_problem',
             'generator.Generator.__init__', 'generator_ha_sm_hr.Generator_ha_sm_hr.generate_instances / generator_spa.Generator_spa.generate_instances (witness runs)']
EXPLANATION = (
    'Symbolic execution of the real Instance_options_parser.parse: argparse runs for real, every numeric argument is a placeholder token mapped by the shadowed '
    'int/float of the module to an UNBOUNDED z3 integer / real. Presence sets are the documented required set of each type, each required flag removed, and each '
    'other flag added (inapplicable or optional). Per path the outcome is accepted / SystemExit(2) / other exception; z3 proves under the path condition: a path '
    'that exits never contains a MUST-ACCEPT vector (documented required set, no inapplicable flag, every listed bound satisfied) and an accepted path never '
    'contains a MUST-REJECT vector (exactly one listed fault); any other exception is a finding. For every path a concrete witness of its condition is run '
    'through the real Generator(argv) in a scratch directory: accepted -> the requested files exist, no error; rejected -> SystemExit(2) and nothing was created.')
ASSUMPTIONS = ['specification is three-valued: vectors with several faults, skew <= 0 or lecturer capacity below the number of lecturers are "do not care" (only: no exception other than SystemExit)',
               'witness generation uses counts <= 4 where the path condition allows it']
LEVEL_TEXT = ('Path-exhaustive symbolic execution of the real argument checks with unbounded symbolic numerics; accept/reject claims against the documented table '
              'discharged by z3 per path; one concrete end-to-end witness per path through the real Generator.')
LEVEL_NOTE = 'Trusted: z3, vf/sym.py, the legality specification here (from the README table and the property text). Outside: presence sets with more than one deviation from the required set.'
TECHNIQUE = 'symbolic execution of Instance_options_parser.parse with symbolic numeric arguments; z3 proves accepted paths contain no must-reject vector and exiting paths no must-accept vector; concrete witness runs of Generator'
RULE = 'one task per (problem type, presence set); each feasible path is a case; non-trivial = path whose condition constrains at least one numeric argument'
EXHAUSTIVE = {}

INT_FLAGS = {'n1': '-n1', 'n2': '-n2', 'n3': '-n3', 'pmin': '-pmin', 'pmax': '-pmax', 'lq': '-lq', 'uq': '-uq',
             'llq': '-llq', 'luq': '-luq', 'lt': '-lt'}
REAL_FLAGS = {'t1': '-t1', 't2': '-t2', 'skew': '-skew'}
REQUIRED = {'ha': ['n1', 'n2', 'pmin', 'pmax', 'uq'], 'sm': ['n1', 'pmin', 'pmax', 'twopl'],
            'hr': ['n1', 'n2', 'pmin', 'pmax', 'uq', 'twopl'], 'spa': ['n1', 'n2', 'n3', 'pmin', 'pmax', 'uq', 'luq']}
BANNED = {'ha': ['twopl', 'n3', 't2', 'llq', 'luq', 'lt'], 'sm': ['n2', 'n3', 'uq', 'lq', 'llq', 'luq', 'lt'],
          'hr': ['n3', 'llq', 'luq', 'lt'], 'spa': []}
ALL = list(INT_FLAGS) + list(REAL_FLAGS) + ['twopl']
LONG = {'n1': '--numberofagents1', 'n2': '--numberofagents2', 'n3': '--numberofagents3', 'pmin': '--minpreflistlength',
        'pmax': '--maxpreflistlength', 'lq': '--lowerquotas', 'uq': '--upperquotas', 'llq': '--lecturerlowerquotas',
        'luq': '--lecturerupperquotas', 'lt': '--lecturertargets', 't1': '--ties1', 't2': '--ties2', 'skew': '--linearskew',
        'twopl': '--preferencelists2', 'numinst': '--numberinstances', 'mp': '--matchingproblem', 'o': '--outputdirectory'}


def BOUNDS(tier):
    return ('4 problem types x {required set, each required flag removed, each other flag added}%s; all numeric arguments symbolic (unbounded integers / reals)'
            % ' + required set with two optional flags added')


def tasks(tier, seed):
    out = []
    for mp in REQUIRED:
        req = REQUIRED[mp]
        sets = [list(req)]
        for r in req:
            sets.append([x for x in req if x != r])
        for a in ALL:
            if a not in req:
                sets.append(req + [a])
        if True:
            opt = [a for a in ALL if a not in req and a not in BANNED[mp]]
            for a, b in itertools.combinations(opt, 2):
                sets.append(req + [a, b])
        for ps in sets:
            out.append({'mp': mp, 'present': ps})
        # the documented long spellings (required set, one required flag removed, one inapplicable flag added)
        out.append({'mp': mp, 'present': list(req), 'long': True})
        out.append({'mp': mp, 'present': list(req)[1:], 'long': True})
        for a in BANNED[mp][:3]:
            out.append({'mp': mp, 'present': req + [a], 'long': True})
    return out


def spec_formulas(mp, present, v):
    """must_accept, must_reject (z3) for a presence set with symbolic values v"""
    req_ok = all(r in present for r in REQUIRED[mp])
    banned_present = [b for b in BANNED[mp] if b in present]
    g = lambda k, d: v[k] if k in present else d
    n1 = g('n1', None)
    n2 = n1 if mp == 'sm' else g('n2', None)
    bounds = []      # (name, formula) - listed bounds, with documented defaults filled in
    if n1 is None or (n2 is None) or 'pmin' not in present or 'pmax' not in present:
        structural_ok = False
    else:
        structural_ok = True
        bounds.append(('numinst >= 1', v['numinst'] >= 1))
        bounds.append(('n1 >= 1', n1 >= 1))
        if mp != 'sm':
            bounds.append(('n2 >= 1', n2 >= 1))
        if 'n3' in present:
            bounds.append(('n3 >= 1', v['n3'] >= 1))
        bounds.append(('pmin >= 1', v['pmin'] >= 1))
        bounds.append(('pmin <= pmax', v['pmin'] <= v['pmax']))
        bounds.append(('pmax <= rankable', v['pmax'] <= n2))
        t1 = g('t1', z3.RealVal(0))
        t2 = g('t2', z3.RealVal(0))
        bounds.append(('t1 in [0,1]', z3.And(t1 >= 0, t1 <= 1)))
        bounds.append(('t2 in [0,1]', z3.And(t2 >= 0, t2 <= 1)))
        lq = g('lq', z3.IntVal(0))
        uq = n2 if mp == 'sm' else g('uq', None)
        if uq is not None:
            bounds.append(('uq >= n2', uq >= n2))
            bounds.append(('0 <= lq <= uq', z3.And(lq >= 0, lq <= uq)))
        if mp == 'spa':
            llq = g('llq', z3.IntVal(0))
            lt = g('lt', z3.IntVal(0))
            luq = g('luq', None)
            if luq is not None:
                bounds.append(('llq <= lt <= luq', z3.And(llq >= 0, llq <= lt, lt <= luq)))
                bounds.append(('luq >= 1', luq >= 1))
    extra_dc = []   # outside the documented bounds: do not care
    if 'skew' in present:
        extra_dc.append(v['skew'] > 0)
    if mp == 'spa' and 'luq' in present and 'n3' in present:
        extra_dc.append(v['luq'] >= v['n3'])
    allb = z3.And([b for _, b in bounds]) if bounds else z3.BoolVal(True)
    if req_ok and not banned_present and structural_ok:
        must_accept = z3.And([allb] + extra_dc)
    else:
        must_accept = z3.BoolVal(False)
    # exactly one fault
    missing = [r for r in REQUIRED[mp] if r not in present]
    nfault_struct = len(missing) + len(banned_present)
    if nfault_struct == 1:
        must_reject = allb if structural_ok or True else z3.BoolVal(False)
        if not structural_ok:
            must_reject = z3.BoolVal(True)
    elif nfault_struct == 0 and structural_ok:
        one = []
        for i, (_, b) in enumerate(bounds):
            one.append(z3.And([z3.Not(b)] + [c for j, (_, c) in enumerate(bounds) if j != i]))
        must_reject = z3.Or(one) if one else z3.BoolVal(False)
    else:
        must_reject = z3.BoolVal(False)
    return must_accept, must_reject


def build_argv(mp, present, tok, outdir, long=False):
    if long:
        argv = [LONG['numinst'], tok('numinst'), LONG['o'], outdir, LONG['mp'], mp]
    else:
        argv = ['-numinst', tok('numinst'), '-o', outdir, '-mp', mp]
    for p in present:
        if p == 'twopl':
            argv.append(LONG['twopl'] if long else '-twopl')
        elif long:
            argv += [LONG[p], tok(p)]
        elif p in INT_FLAGS:
            argv += [INT_FLAGS[p], tok(p)]
        else:
            argv += [REAL_FLAGS[p], tok(p)]
    return argv


def run_task(task):
    res = {'obligations': 0, 'discharged': 0, 'unknown': 0, 'cex': [], 'queries': 0, 'solver_time': 0.0,
           'paths': 0, 'nontrivial': 0, 'controls': {}}
    mp, present = task['mp'], task['present']
    ns = repo.load('real')
    iop = ns.iop

    def body():
        e = S.engine()
        v = {'numinst': e.fresh_int('numinst').t}
        for p in present:
            if p in INT_FLAGS:
                v[p] = e.fresh_int(p).t
            elif p in REAL_FLAGS:
                v[p] = e.fresh_real(p).t
        e.notes['v'] = v
        iop.int, iop.float = S.sym_int, S.sym_float
        try:
            argv = build_argv(mp, present, lambda k: e.token(v[k]), '/nonexistent/vf_c15_out', long=task.get('long', False))
            with contextlib.redirect_stderr(io.StringIO()):
                args = iop.Instance_options_parser().parse(argv)
            return 'accepted'
        finally:
            del iop.int, iop.float

    E = S.Engine(max_paths=4096, timeout=600)
    paths = E.explore(body)
    res['paths'] = len(paths)
    res['queries'] += E.stats['solver_queries']
    res['solver_time'] += E.stats['solver_time']
    tags = {}
    for p in paths:
        v = p.notes['v']
        ma, mr = spec_formulas(mp, present, v)
        if p.exc is None:
            outcome, forbidden, why = 'accepted', mr, 'accepted although exactly one documented rule is violated'
        elif isinstance(p.exc, SystemExit) and p.exc.code == 2:
            outcome, forbidden, why = 'exit2', ma, 'rejected although the argument set is documented as legal'
        else:
            outcome, forbidden, why = 'raised', z3.BoolVal(True), 'raised %r instead of accepting or exiting with a usage error' % (p.exc,)
        res['obligations'] += 1
        res['nontrivial'] += 1 if p.pc else 0
        r, m = S.holds(p.pc, z3.Not(forbidden))
        res['queries'] += 1
        if r == 'unsat':
            res['discharged'] += 1
        elif r == 'unknown':
            res['unknown'] += 1
        else:
            tag = 'parse/%s/%s/%s' % (outcome, mp, type(p.exc).__name__ if outcome == 'raised' else ('missing-' + ','.join(x for x in REQUIRED[mp] if x not in present) or 'x') if outcome == 'exit2' else 'bound')
            tags[tag] = tags.get(tag, 0) + 1
            if tags[tag] <= 2:
                res['cex'].append({'tag': tag, 'what': '%s (%s, flags %s)' % (why, mp, present),
                                   'data': {'mp': mp, 'present': present, 'long': task.get('long', False), 'values': concrete(v, m), 'expect': {'accepted': 'exit2', 'exit2': 'accepted', 'raised': 'no-exception'}[outcome]}})
            continue
        # concrete witness of this path through the real Generator
        res['obligations'] += 1
        wit = witness(p.pc, v)
        if wit is None:
            res['discharged'] += 1
            continue
        out = real_generator(ns, mp, present, wit, long=task.get('long', False))
        ok = (out['outcome'] == outcome) and (out['created'] == (outcome == 'accepted')) and (outcome != 'accepted' or out['files_ok'])
        if ok:
            res['discharged'] += 1
        else:
            tag = 'witness/%s/%s->%s' % (mp, outcome, out['outcome'])
            tags[tag] = tags.get(tag, 0) + 1
            if tags[tag] <= 2:
                res['cex'].append({'tag': tag, 'what': 'parser path says %s, real Generator run: %s, output created: %s' % (outcome, out['outcome'], out['created']),
                                   'data': {'mp': mp, 'present': present, 'long': task.get('long', False), 'values': wit, 'expect': outcome}})
    res['sample'] = {'mp': mp, 'present': present, 'paths': len(paths)}
    return res


def concrete(v, m):
    out = {}
    for k, t in v.items():
        x = m.eval(t, model_completion=True)
        if z3.is_int_value(x):
            out[k] = x.as_long()
        else:
            out[k] = x.numerator_as_long() / x.denominator_as_long()
    return out


def witness(pc, v):
    s = z3.Solver()
    s.add(*pc)
    small = [z3.And(t >= -1, t <= 4) for k, t in v.items() if t.sort() == z3.IntSort()]
    if s.check(*small) != z3.sat and s.check() != z3.sat:
        return None
    if s.check(*small) != z3.sat:
        s.check()
    w = concrete(v, s.model())
    if any(isinstance(x, int) and x > 8 for x in w.values()):
        return None
    return w


def real_generator(ns, mp, present, values, long=False):
    tmp = tempfile.mkdtemp(prefix='vf_c15_')
    outdir = os.path.join(tmp, 'out', 'instances')
    argv = build_argv(mp, present, lambda k: repr(values[k]) if isinstance(values[k], float) else str(values[k]), outdir, long=long)
    res = {'argv': argv}
    try:
        with contextlib.redirect_stderr(io.StringIO()):
            try:
                import numpy as np
                np.random.seed(1)
                random.seed(1)
                ns.generator.Generator(argv)
                res['outcome'] = 'accepted'
            except SystemExit as e:
                res['outcome'] = 'exit%s' % e.code
            except Exception as e:  # noqa
                res['outcome'] = 'raised %s: %s' % (type(e).__name__, e)
        res['created'] = os.path.exists(os.path.join(tmp, 'out'))
        k = values.get('numinst', 0)
        res['files_ok'] = res['created'] and os.path.isdir(outdir) and sorted(os.listdir(outdir)) == sorted('%d.txt' % i for i in range(k))
    finally:
        shutil.rmtree(tmp, ignore_errors=True)
    return res


def replay(cex):
    d = cex['data']
    ns = repo.load('real')
    # parses earlier in the same process (one rejected, one accepted) must not influence this one
    real_generator(ns, 'ha', ['n1', 'n2', 'pmin', 'pmax'], {'numinst': 1, 'n1': 1, 'n2': 1, 'pmin': 1, 'pmax': 1})
    real_generator(ns, 'hr', ['n1', 'n2', 'pmin', 'pmax', 'uq', 'twopl', 'n3'], {'numinst': 1, 'n1': 1, 'n2': 1, 'pmin': 1, 'pmax': 1, 'uq': 1, 'n3': 1})
    real_generator(ns, 'ha', ['n1', 'n2', 'pmin', 'pmax', 'uq'], {'numinst': 1, 'n1': 1, 'n2': 1, 'pmin': 1, 'pmax': 1, 'uq': 1})
    out = real_generator(ns, d['mp'], d['present'], d['values'], long=d.get('long', False))
    exp = d['expect']
    if exp == 'accepted':
        bad = not (out['outcome'] == 'accepted' and out['files_ok'])
    elif exp == 'exit2':
        bad = not (out['outcome'] == 'exit2' and not out['created'])
    else:
        bad = out['outcome'].startswith('raised')
    return bad, 'argv %s -> %s, output directory created: %s (expected %s)' % (out['argv'][:2] + out['argv'][4:], out['outcome'], out['created'], exp)


def describe_task(t):
    return t


if __name__ == '__main__':
    raise SystemExit(harness.main(__import__('sys').modules[__name__]))
