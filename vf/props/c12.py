"""C12 - second-side lists rank exactly the agents that find them acceptable."""
import itertools

import z3

from .. import harness, repo, rngstub, spec
from .. import sym as S

ID = 'C12'
LEVEL = 'other'
ENGINE = 'pathsym + RNG contract stubs (z3)'
FUNCTIONS = ['generator_shared.create_pref_lists_from_other_lists', 'generator_shared.create_ties_indicators',
             'generator_spa.Generator_spa.create_student_lec_lists/create_project_lecturers',
             'generator_ha_sm_hr.Generator_ha_sm_hr.create_instance', 'generator_spa.Generator_spa.create_instance']
EXPLANATION = (
    'Symbolic execution (pathsym) of the real second-side list construction. First-side lists are vectors of symbolic integers (pairwise '
    'distinct, in 1..n2; every list-length vector enumerated); indexing by an entry forks over every feasible value; random.shuffle is a '
    'symbolic permutation and the tie draws are symbolic 0/1 vectors (contract stubs); project and lecturer quotas / targets passed to create_instance are symbolic (0 <= lower <= target <= upper). The instance text is produced by the real create_instance '
    '(HR and SPA) and read back by an independent reader that maps placeholder tokens to terms. Per path z3 proves: agent i occurs exactly once in '
    'second-side list j iff j is in first-side list i (HR/SM), resp. iff student i ranks at least one project offered by lecturer j (SPA); no '
    'other agent occurs. Counterexamples are replayed on the real generator functions with the RNG scripted.')
ASSUMPTIONS = ['random.shuffle returns an arbitrary permutation; tie draws are arbitrary 0/1 vectors',
               'projects are assigned to lecturers by the real create_project_lecturers (concrete n2, n3)']
LEVEL_TEXT = ('Path-exhaustive symbolic execution of the real inversion + shuffle + text assembly for all first-side lists within the bound and all '
              'shuffle outcomes (symbolic permutation); per-path claims discharged by z3.')
LEVEL_NOTE = 'Trusted: z3, vf/sym.py, RNG contracts in vf/rngstub.py, the independent reader in vf/spec.py. Outside: n1, n2, n3 above the bound.'
TECHNIQUE = 'symbolic execution of create_pref_lists_from_other_lists / create_student_lec_lists with symbolic first-side lists and a symbolic shuffle permutation; z3 proves exactly-once-iff-acceptable on the emitted file'
RULE = 'one task per (problem type, n1, n2, n3, list-length vector); each feasible path (first-side lists) is a case; non-trivial = at least one second-side list with >= 2 entries'
EXHAUSTIVE = {}


def BOUNDS(tier):
    b = 2 if tier == 'quick' else 3
    return 'hr: n1,n2 <= %d (total list length <= 6); spa: n1 <= %d, n2 <= 3, n3 <= 3 (incl. more lecturers than projects; total list length <= 5 when n1 = 3); all list-length vectors within that, all lists, all shuffles, all quota vectors (symbolic)' % (b, b)


def tasks(tier, seed):
    b = 2 if tier == 'quick' else 3
    out = []
    for n1 in range(1, b + 1):
        for n2 in range(1, b + 1):
            for lens in itertools.product(range(1, n2 + 1), repeat=n1):
                if sum(lens) > 6:
                    continue
                out.append({'kind': 'hr', 'n1': n1, 'n2': n2, 'n3': 0, 'lens': list(lens)})
    for n1 in range(1, b + 1):
        for n2 in range(1, 4):
            for n3 in range(1, 4):
                if tier == 'quick' and n2 == 3 and n3 == 3 and n1 == 2:
                    continue
                for lens in itertools.product(range(1, n2 + 1), repeat=n1):
                    if tier == 'quick' and n1 == 2 and lens[0] > lens[1]:
                        continue
                    if sum(lens) > 5 and n1 == 3:
                        continue
                    out.append({'kind': 'spa', 'n1': n1, 'n2': n2, 'n3': n3, 'lens': list(lens)})
    return out


def run_task(task):
    ns = repo.load('real')
    g = ns.gshared
    kind, n1, n2, n3, lens = task['kind'], task['n1'], task['n2'], task['n3'], task['lens']
    res = {'obligations': 0, 'discharged': 0, 'unknown': 0, 'cex': [], 'queries': 0, 'solver_time': 0.0,
           'paths': 0, 'nontrivial': 0, 'controls': {}}

    def body():
        e = S.engine()
        rec, restore = rngstub.install(g)
        try:
            lists = []
            for i in range(n1):
                row = []
                for _ in range(lens[i]):
                    v = e.fresh_int('e')
                    e.assume((v >= 1) & (v <= n2))
                    for w in row:
                        e.assume(v.t != w.t)
                    row.append(v)
                lists.append(row)
            first_ties = [[0] * len(r) for r in lists]

            def quotas(k, tag, parts):
                # arbitrary quotas 0 <= lower (<= target) <= upper: the relation must hold whatever they are
                cols = [[] for _ in range(parts)]
                for _ in range(k):
                    prev = None
                    for c in range(parts):
                        v = e.fresh_int(tag)
                        e.assume((v >= 0) & (v <= n1 + 1))
                        if prev is not None:
                            e.assume(v.t >= prev.t)
                        prev = v
                        cols[c].append(v)
                return cols
            if kind == 'hr':
                second, sties = g.create_pref_lists_from_other_lists(lists, n2, 0.5)
                plo, pup = quotas(n2, 'pq', 2)
                e.notes['lq'] = [[S.term_of(v) for v in col] for col in (plo, pup)]
                text = ns.ghr.Generator_ha_sm_hr().create_instance(
                    n1, n2, lists, first_ties, second, sties, plo, pup, 'info\n')
                plec = list(range(1, n2 + 1))
            else:
                gen = ns.gspa.Generator_spa()
                plec = gen.create_project_lecturers(n2, n3)
                # every id a distinct object of equal value, as Python ints above 256 are: comparing ids with `is` must fail here
                boxed = [S.SymInt(z3.IntVal(int(v))) for v in plec]
                sl = gen.create_student_lec_lists(lists, boxed, n3)
                second, sties = g.create_pref_lists_from_other_lists(sl, n3, 0.5)
                plo, pup = quotas(n2, 'pq', 2)
                llo, ltg, lup = quotas(n3, 'lq', 3)
                e.notes['lq'] = [[S.term_of(v) for v in col] for col in (plo, pup, llo, ltg, lup)]
                text = gen.create_instance(n1, n2, n3, lists, first_ties, plec, plo, pup,
                                           second, sties, llo, ltg, lup, 'info\n')
            e.notes['lists'] = [[S.term_of(v) for v in r] for r in lists]
            e.notes['plec'] = plec
            return text
        finally:
            restore()

    E = S.Engine(max_paths=50000, timeout=900)
    paths = E.explore(body)
    res['paths'] = len(paths)
    if E.stats.get('aborted'):
        raise RuntimeError('%d paths were dropped by an infeasible stub assumption (harness error)' % E.stats['aborted'])
    res['queries'] += E.stats['solver_queries']
    res['solver_time'] += E.stats['solver_time']
    nsec = n2 if kind == 'hr' else n3
    for p in paths:
        res['obligations'] += 1
        lists = p.notes.get('lists')

        def conc(m):
            return [[m.eval(t, model_completion=True).as_long() for t in r] for r in lists] if lists else None

        def concq(m):
            lq = p.notes.get('lq')
            return [[m.eval(t, model_completion=True).as_long() for t in col] for col in lq] if lq else None
        if p.exc is not None:
            s = z3.Solver()
            s.add(*p.pc)
            s.check()
            res['cex'].append({'tag': 'exception/%s' % type(p.exc).__name__, 'what': 'raised %r' % (p.exc,),
                               'data': dict(task, lists=conc(s.model()), quotas=concq(s.model()))})
            continue

        def ent(tok):
            t = p.tokens.get(tok)
            return t if t is not None else z3.IntVal(int(tok))
        try:
            J = spec.parse_text(p.result, 2 if kind == 'hr' else 3, True, num=ent, ent=ent)
        except Exception as ex:  # noqa
            s = z3.Solver()
            s.add(*p.pc)
            s.check()
            res['cex'].append({'tag': 'unreadable', 'what': 'generated text not in the documented format: %r' % (ex,),
                               'data': dict(task, lists=conc(s.model()), quotas=concq(s.model()))})
            continue
        plec = p.notes['plec']
        claims = []
        for j in range(1, nsec + 1):
            members = [t for g_ in J.lprefs[j - 1] for t in g_]
            if len(members) >= 2:
                res['nontrivial'] += 1
            for i in range(1, n1 + 1):
                occ = z3.Sum([z3.If(t == i, 1, 0) for t in members]) if members else z3.IntVal(0)
                if kind == 'hr':
                    acc = z3.Or([t == j for t in lists[i - 1]])
                else:
                    projs = [q + 1 for q in range(n2) if plec[q] == j]
                    acc = z3.Or([t == q for t in lists[i - 1] for q in projs]) if projs else z3.BoolVal(False)
                claims.append(occ == z3.If(acc, 1, 0))
            for t in members:
                claims.append(z3.And(t >= 1, t <= n1))
        claim = z3.And(claims) if claims else z3.BoolVal(True)
        r, m = S.holds(p.pc, claim)
        res['queries'] += 1
        if r == 'unsat':
            res['discharged'] += 1
        elif r == 'unknown':
            res['unknown'] += 1
        else:
            res['cex'].append({'tag': 'membership/%s' % kind, 'what': 'a second-side list does not rank exactly the agents that find it acceptable',
                               'data': dict(task, lists=conc(m), quotas=concq(m))})
    res['sample'] = dict(task, paths=len(paths), example=(paths[0].result.split('\n')[:n1 + nsec + n2 + 2] if paths and paths[0].exc is None else None))
    return res


def replay(cex):
    d = cex['data']
    ns = repo.load('real')
    lists = d.get('lists')
    if lists is None:
        return False, 'no concrete lists'
    import numpy as np
    import random
    kind, n1, n2, n3 = d['kind'], d['n1'], d['n2'], d['n3']
    bad, notes = False, []
    q = d.get('quotas')
    if kind == 'hr':
        plo, pup = q if q else ([0] * n2, [n1] * n2)
    else:
        plo, pup, llo, ltg, lup = q if q else ([0] * n2, [n1] * n2, [0] * n3, [0] * n3, [n1] * n3)
    for seed in range(5 if not d.get('probe') else 1):
        random.seed(seed)
        np.random.seed(seed)
        try:
            ft = [np.zeros(len(r), dtype=int) for r in lists]
            if kind == 'hr':
                second, sties = ns.gshared.create_pref_lists_from_other_lists([np.array(r) for r in lists], n2, 0.5)
                text = ns.ghr.Generator_ha_sm_hr().create_instance(n1, n2, lists, ft, second, sties, plo, pup, 'info\n')
                plec = list(range(1, n2 + 1))
                J = spec.parse_text(text, 2, True)
            else:
                gen = ns.gspa.Generator_spa()
                plec = gen.create_project_lecturers(n2, n3)
                sl = gen.create_student_lec_lists(lists, plec, n3)
                second, sties = ns.gshared.create_pref_lists_from_other_lists(sl, n3, 0.5)
                text = gen.create_instance(n1, n2, n3, lists, ft, plec, plo, pup, second, sties, llo, ltg, lup, 'info\n')
                J = spec.parse_text(text, 3, True)
        except Exception as e:  # noqa
            return True, 'first-side lists %s: real generator code raised %r' % (lists, e)
        for j in range(1, J.nl + 1):
            members = [t for g_ in J.lprefs[j - 1] for t in g_]
            want = sorted(i + 1 for i in range(n1) if any(plec[q - 1] == j for q in lists[i]))
            if sorted(members) != want:
                bad = True
                notes.append('seed %d: second-side agent %d lists %s, the agents that find it acceptable are %s' % (seed, j, members, want))
        if bad:
            break
    if not bad and not d.get('probe'):
        # the symbolic run treats ids as opaque boxed values; a concrete witness of an id-handling slip may need ids with
        # several digits (>= 10) or ids that CPython does not intern (> 256): probe those sizes with fixed lists
        probes = []
        if kind == 'hr':
            probes.append(('hr', 12, 2, 0, [[1]] * 11 + [[2]]))
            probes.append(('hr', 11, 11, 0, [[11 - i] for i in range(11)]))
        else:
            probes.append(('spa', 12, 4, 2, [[1]] * 11 + [[4, 3]]))
            probes.append(('spa', 2, 600, 300, [[513, 514, 1], [600, 599]]))
        for (k2, a1, a2, a3, ls) in probes:
            b2, t2 = replay({'data': {'kind': k2, 'n1': a1, 'n2': a2, 'n3': a3, 'lists': ls, 'probe': True}})
            if b2:
                return True, 'not visible on the small lists of the symbolic counterexample %s; shown on a probe with larger identifiers:\n%s' % (lists, t2)
    return bad, 'first-side lists %s quotas %s (%s n1=%d n2=%d n3=%d)\n%s' % (lists if len(str(lists)) < 200 else str(lists)[:200] + '...', q, kind, n1, n2, n3, '\n'.join(notes) or 'all second-side lists correct')


def describe_task(t):
    return t


def task_cost(t):
    c = 1
    for l in t['lens']:
        c *= t['n2'] ** l
    return c


if __name__ == '__main__':
    raise SystemExit(harness.main(__import__('sys').modules[__name__]))
