"""C06 - the stability checker answers True exactly for matchings without a blocking pair."""
import random

import z3

from .. import harness, repo, lpchecks, shapes, e2, spec, replay as rp
from .. import sym as S
from ..spec import Z, P

ID = 'C06'
LEVEL = 'other'
ENGINE = 'pathsym (z3); CrossHair 0.0.110 differential as independent second engine on small shapes (quotas in 0..3)'
FUNCTIONS = ['model.Model.check_stability', 'model.Model.get_num_assignments_projects/get_num_assignments_lecturers',
             'model.Model.get_worst_rank_projects/get_worst_rank_lecturers', 'fileIO.import_model (builds the Model from a file with symbolic quotas)']
EXPLANATION = (
    'Symbolic execution (pathsym) of the real Model.check_stability on the real Model that the real parser builds from a two-sided instance '
    'file whose quotas are placeholder tokens (z3 integers >= 0, unbounded). The assignment (each student: unassigned or a position of its list) '
    'is a vector of symbolic integers, list indexing forks over every feasible value, and only "the assignment respects project and lecturer '
    'upper quotas" is assumed. Every path must return a bool; per path z3 proves  PC => (returned value == not exists blocking pair)  with the '
    'blocking-pair definition written from the property text (2, 3a, 3b incl. "already supervises", 3c). Any exception path or refuted claim is '
    'replayed on the real function with concrete quotas.')
ASSUMPTIONS = ['assignment respects project and lecturer upper quotas (stated precondition of the property); lower quotas are NOT assumed',
               'lecturer lists rank exactly the students who rank one of the lecturer\'s projects']
LEVEL_TEXT = ('Path-exhaustive symbolic execution of the real checker per two-sided shape with symbolic quotas and symbolic assignment; z3 proves the '
              'returned value equals the specification on every path (all quota vectors at once); shapes bounded.')
LEVEL_NOTE = 'Trusted: z3, vf/sym.py, blocking-pair definition in vf/spec.py. Outside: shapes beyond ns<=4, np<=3, nl<=3.'
TECHNIQUE = 'symbolic execution of Model.check_stability with symbolic quotas and assignment; z3 validity of result == no-blocking-pair per path; concrete replay'
RULE = 'one task per two-sided shape; each feasible path (assignment x quota region) is a case; non-trivial = path with a quota comparison in its condition'
EXHAUSTIVE = {}


def BOUNDS(tier):
    return ('two-sided shapes: corner set + %s; all assignments of students to list positions / unassigned; quotas symbolic >= 0'
            % ('30 seeded random (those with ns<=3)' if tier == 'quick' else '400 seeded random ns<=4 + exhaustive ns<=2,np<=2,nl<=2'))


def tasks(tier, seed):
    shs = shapes.shape_set(tier, seed, twosided=True, quick_n=30, thorough_n=400)
    shs = [s for s in shs if s.np <= 4 and s.ns <= 4]      # the wide corner shapes (two-digit ids) are C10 / C01 / C02 material
    if tier == 'quick':
        shs = [s for s in shs if s.ns <= 3]
    else:
        seen = {s.shape_key() for s in shs}
        for dims in ((3, 2, 2, 2), (3, 2, 2, 1), (2, 2, 2, 2)):
            for s in shapes.enumerate_shapes(dims[0], dims[1], dims[2], dims[3], True):
                if s.shape_key() not in seen:
                    seen.add(s.shape_key())
                    shs.append(s)
    out = [{'shape': lpchecks.shape_data(I)} for I in shs]
    # second engine: CrossHair differential (real check_stability vs a plain-Python reference) on small corner shapes
    small = [s for s in shapes.corner_shapes(twosided_only=True) if s.ns <= 2]
    for I in (small[:2] if tier == 'quick' else small):
        out.append({'shape': lpchecks.shape_data(I), 'engine': 'crosshair'})
    return out


CH_TEMPLATE = '''
import sys
sys.path.insert(0, %(repo)r)
from typing import List
from matchingproblems.solver.model import Model, Pair

PREFS = %(prefs)r      # per student: [(project, rank_student, lecturer, rank_lecturer)]
NP, NL = %(np)d, %(nl)d


def build(puq: List[int], luq: List[int]) -> Model:
    m = Model()
    m.num_students, m.num_projects, m.num_lecturers = len(PREFS), NP, NL
    m.proj_lower_quotas = [0] * NP
    m.proj_upper_quotas = list(puq)
    m.lec_lower_quotas = [0] * NL
    m.lec_targets = [0] * NL
    m.lec_upper_quotas = list(luq)
    for s, row in enumerate(PREFS):
        prow = []
        for (p, rs, l, rl) in row:
            pr = Pair(s + 1, p, rs)
            pr.set_lecturer(l)
            pr.set_lecturer_rank(rl)
            prow.append(pr)
        m.pairs.append(prow)
    return m


def reference(puq: List[int], luq: List[int], a: List[int]) -> bool:
    """no blocking pair, written from the SPA-STL definition; a[s] = position (1-based) or 0"""
    chosen = [None if a[s] == 0 else PREFS[s][a[s] - 1] for s in range(len(PREFS))]
    pl = [sum(1 for c in chosen if c is not None and c[0] == j + 1) for j in range(NP)]
    ll = [sum(1 for c in chosen if c is not None and c[2] == k + 1) for k in range(NL)]
    for s, row in enumerate(PREFS):
        for (p, rs, l, rl) in row:
            cur = chosen[s]
            if not (cur is None or rs < cur[1]):
                continue
            p_under = pl[p - 1] < puq[p - 1]
            l_under = ll[l - 1] < luq[l - 1]
            worse_l = any(c is not None and c[2] == l and c[3] > rl for c in chosen)
            worse_p = any(c is not None and c[0] == p and c[3] > rl for c in chosen)
            if p_under and l_under:
                return False
            if p_under and not l_under and ((cur is not None and cur[2] == l) or worse_l):
                return False
            if not p_under and worse_p:
                return False
    return True


def differential(%(params)s) -> bool:
    """
    pre: %(pre)s
    post: _
    """
    puq = [%(puqs)s]
    luq = [%(luqs)s]
    a = [%(as_)s]
    chosen = [None if a[s] == 0 else PREFS[s][a[s] - 1] for s in range(len(PREFS))]
    for j in range(NP):
        if sum(1 for c in chosen if c is not None and c[0] == j + 1) > puq[j]:
            return True
    for k in range(NL):
        if sum(1 for c in chosen if c is not None and c[2] == k + 1) > luq[k]:
            return True
    m = build(puq, luq)
    assign = [None if a[s] == 0 else m.pairs[s][a[s] - 1] for s in range(len(PREFS))]
    got = m.check_stability(assign)
    return (got is True or got is False) and got == reference(puq, luq, a)
'''


def crosshair_source(I, repo_path):
    prefs = []
    for s in range(1, I.ns + 1):
        row = []
        for (s2, p, r) in I.pairs():
            if s2 == s:
                row.append((p, r, I.lec(p), I.lrank(I.lec(p), s)))
        prefs.append(row)
    pu = ['pu%d' % j for j in range(I.np)]
    lu = ['lu%d' % k for k in range(I.nl)]
    aa = ['a%d' % s for s in range(I.ns)]
    pre = ' and '.join(['0 <= %s <= 3' % x for x in pu + lu] + ['0 <= %s <= %d' % (x, len(prefs[i])) for i, x in enumerate(aa)])
    return CH_TEMPLATE % {'repo': repo_path, 'prefs': prefs, 'np': I.np, 'nl': I.nl,
                          'params': ', '.join('%s: int' % x for x in pu + lu + aa), 'pre': pre,
                          'puqs': ', '.join(pu), 'luqs': ', '.join(lu), 'as_': ', '.join(aa)}


def crosshair_task(task, res):
    import os
    import shutil
    import subprocess
    import sys as _sys
    import tempfile
    I = lpchecks.shape_from(task['shape'])
    d = tempfile.mkdtemp(prefix='vf_c06ch_')
    try:
        path = os.path.join(d, 'h06.py')
        with open(path, 'w') as f:
            f.write(crosshair_source(I, repo.REPO))
        r = subprocess.run([_sys.executable, '-m', 'crosshair', 'check', '--report_all', '--per_condition_timeout', '120', path],
                           capture_output=True, text=True, cwd=d, timeout=900)
        out = (r.stdout + r.stderr).strip()
    finally:
        shutil.rmtree(d, ignore_errors=True)
    res['paths'] = 1
    res['nontrivial'] = 1
    if 'Confirmed over all paths' in out:
        res['obligations'] += 1
        res['discharged'] += 1
        res['controls']['crosshair_confirmed'] = 1
    elif 'error' in out and 'differential(' in out:
        import re as _re
        m = _re.search(r'differential\(([^)]*)\)', out)
        vals = [int(x) for x in _re.findall(r'-?\d+', m.group(1))]
        puq, luq, a = vals[:I.np], vals[I.np:I.np + I.nl], vals[I.np + I.nl:]
        J = I.with_numerics([0] * I.np, puq, [0] * I.nl, [0] * I.nl, luq)
        ass = [0 if a[s] == 0 else [p for (s2, p, _) in I.pairs() if s2 == s + 1][a[s] - 1] for s in range(I.ns)]
        res['obligations'] += 1
        res['cex'].append({'tag': 'crosshair/differential', 'what': 'CrossHair counterexample: ' + out.split('\n')[-1][:200],
                           'data': {'inst': rp.inst_to_data(J), 'assign': ass}})
    else:
        res['controls']['crosshair_inconclusive'] = 1   # second engine only; does not affect the verdict
    res['sample'] = {'engine': 'crosshair', 'shape': task['shape'], 'output': out[-160:]}
    return res


def run_task(task):
    if task.get('engine') == 'crosshair':
        return crosshair_task(task, {'obligations': 0, 'discharged': 0, 'unknown': 0, 'cex': [], 'queries': 0, 'solver_time': 0.0,
                                     'paths': 0, 'nontrivial': 0, 'controls': {}})
    I = lpchecks.shape_from(task['shape'])
    res = {'obligations': 0, 'discharged': 0, 'unknown': 0, 'cex': [], 'queries': 0, 'solver_time': 0.0,
           'paths': 0, 'nontrivial': 0, 'controls': {}}

    def body():
        e = S.engine()
        run = e2.run_e2(I, {'twopl'}, [], solve=False)
        model = run.solver.model
        J = run.inst
        assign, choice = [], []
        for i, row in enumerate(model.pairs):
            a = e.fresh_int('a')
            e.assume((a >= 0) & (a <= len(row)))
            k = int(a)     # forks over every feasible value
            choice.append(k)
            assign.append(None if k == 0 else row[k - 1])
        # precondition: upper quotas respected
        pcount = [0] * J.np
        lcount = [0] * J.nl
        for pr in assign:
            if pr is not None:
                pcount[pr.project_index] += 1
                lcount[pr.lecturer_index] += 1
        for j in range(J.np):
            e.assume(z3.IntVal(pcount[j]) <= J.puq[j])
        for k in range(J.nl):
            e.assume(z3.IntVal(lcount[k]) <= J.luq[k])
        e.notes['J'] = J
        e.notes['assign'] = [0 if pr is None else pr.projectID for pr in assign]
        # the checker is a function of (instance, assignment): an earlier call on the same Model with
        # another assignment (nobody assigned) must not influence the answer
        try:
            model.check_stability([None] * len(model.pairs))
        except Exception:  # noqa - reported by the path on which that assignment is the subject
            pass
        return model.check_stability(assign)

    E = S.Engine(max_paths=60000, timeout=1500)
    paths = E.explore(body)
    res['paths'] = len(paths)
    res['queries'] += E.stats['solver_queries']
    res['solver_time'] += E.stats['solver_time']
    seen_tags = {}
    for p in paths:
        J = p.notes.get('J')
        ass = p.notes.get('assign')
        res['obligations'] += 1
        if J is None:
            res['cex'].append({'tag': 'setup/%s' % type(p.exc).__name__, 'what': 'model construction raised %r' % (p.exc,),
                               'data': {'shape': task['shape']}})
            continue
        x = {(s, pp): (1 if ass[s - 1] == pp else 0) for (s, pp, _) in J.pairs()}

        def data(m):
            C = rp.concretize_inst(J, m)
            return {'inst': rp.inst_to_data(C), 'assign': ass}
        if p.exc is not None:
            tag = 'exception/%s/%s' % (type(p.exc).__name__, lpchecks.repo_site(p.exc))
            if seen_tags.get(tag, 0) < 3:
                seen_tags[tag] = seen_tags.get(tag, 0) + 1
                s = z3.Solver()
                s.add(*p.pc)
                if s.check() == z3.sat:
                    res['cex'].append({'tag': tag, 'what': 'check_stability raised %r' % (p.exc,), 'data': data(s.model())})
            continue
        if not isinstance(p.result, bool):
            res['cex'].append({'tag': 'nonbool', 'what': 'returned %r' % (p.result,), 'data': {'shape': task['shape']}})
            continue
        claim = spec.stable(J, x, Z) if p.result else z3.Not(spec.stable(J, x, Z))
        r, m = S.holds(p.pc, claim)
        res['queries'] += 1
        res['nontrivial'] += 1 if len(p.pc) > J.ns * 2 + J.np + J.nl else 0
        if r == 'unsat':
            res['discharged'] += 1
        elif r == 'unknown':
            res['unknown'] += 1
        else:
            tag = 'wrong/%s' % ('true-but-blocked' if p.result else 'false-but-stable')
            if seen_tags.get(tag, 0) < 3:
                seen_tags[tag] = seen_tags.get(tag, 0) + 1
                res['cex'].append({'tag': tag, 'what': 'check_stability returned %s but the assignment is %s' % (
                    p.result, 'blocked' if p.result else 'stable'), 'data': data(m)})
    res['sample'] = {'shape': task['shape'], 'paths': len(paths)}
    return res


def replay(cex):
    d = cex['data']
    if 'inst' not in d:
        return False, 'no instance'
    I = rp.inst_from_data(d['inst'])
    ns = repo.load('real')
    import os, shutil, tempfile
    tmp = tempfile.mkdtemp(prefix='vf_c06_')
    try:
        path = os.path.join(tmp, 'i.txt')
        with open(path, 'w') as f:
            f.write(spec.inst_to_text(I))
        s = ns.solver.Solver(['-f', path, '-na', str(I.na), '-twopl'])
    finally:
        shutil.rmtree(tmp, ignore_errors=True)
    m = s.model
    assign = []
    for i, pid in enumerate(d['assign']):
        assign.append(None if pid == 0 else [pr for pr in m.pairs[i] if pr.projectID == pid][0])
    x = {(st, pp): (1 if d['assign'][st - 1] == pp else 0) for (st, pp, _) in I.pairs()}
    want = spec.stable(I, x, P)
    hdr = 'instance:\n%sassignment %s; no blocking pair: %s' % (spec.inst_to_text(I, trailer=False), d['assign'], want)
    try:
        try:
            m.check_stability([None] * len(m.pairs))
        except Exception:  # noqa
            pass
        got = m.check_stability(assign)
    except Exception as e:  # noqa
        return True, hdr + '\nModel.check_stability raised %s: %s' % (type(e).__name__, e)
    return (got is not want), hdr + '\nModel.check_stability returned %r' % (got,)


def describe_task(t):
    return t


def task_cost(t):
    if t.get('engine') == 'crosshair':
        return 10 ** 6
    sh = t['shape']
    c = 1
    for gs in sh['prefs']:
        c *= (1 + sum(len(g) for g in gs))
    return c


if __name__ == '__main__':
    raise SystemExit(harness.main(__import__('sys').modules[__name__]))
