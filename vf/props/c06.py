"""C06 - the stability checker answers True exactly for matchings without a blocking pair."""
import random

import z3

from .. import harness, repo, lpchecks, shapes, e2, spec, replay as rp
from .. import sym as S
from ..spec import Z, P

ID = 'C06'
LEVEL = 'other'
ENGINE = 'pathsym (z3)'
FUNCTIONS = ['model.Model.check_stability', 'model.Model.get_num_assignments_projects/get_num_assignments_lecturers',
             'model.Model.get_worst_rank_projects/get_worst_rank_lecturers', 'fileIO.import_model (builds the Model from a file with symbolic quotas)']
EXPLANATION = (
    'Symbolic execution (pathsym) of the real Model.check_stability on the real Model that the real parser builds from a two-sided instance '
    'file whose quotas are placeholder tokens (z3 integers >= 0, unbounded). The assignment (each student: unassigned or a position of its list) '
    'is a vector of symbolic integers, list indexing forks over every feasible value, and only "the assignment respects project and lecturer '
    'upper quotas" is assumed. Every path must return a bool; per path z3 proves  PC => (returned value == not exists blocking pair)  with the '
    'blocking-pair definition written from the property text (2, 3a, 3b incl. "already supervises", 3c). Any exception path or refuted claim is '
    'replayed on the real function with concrete quotas.')
ASSUMPTIONS = ['assignment respects project and lecturer upper quotas (stated precondition of the property); lower quotas are NOT assumed',
               'lecturer lists rank exactly the students who rank one of the lecturer\'s projects']
LEVEL_TEXT = ('Path-exhaustive symbolic execution of the real checker per two-sided shape with symbolic quotas and symbolic assignment; z3 proves the '
              'returned value equals the specification on every path (all quota vectors at once); shapes bounded.')
LEVEL_NOTE = 'Trusted: z3, vf/sym.py, blocking-pair definition in vf/spec.py. Outside: shapes beyond ns<=4, np<=3, nl<=3.'
TECHNIQUE = 'symbolic execution of Model.check_stability with symbolic quotas and assignment; z3 validity of result == no-blocking-pair per path; concrete replay'
RULE = 'one task per two-sided shape; each feasible path (assignment x quota region) is a case; non-trivial = path with a quota comparison in its condition'
EXHAUSTIVE = {}


def BOUNDS(tier):
    return ('two-sided shapes: corner set + %s; all assignments of students to list positions / unassigned; quotas symbolic >= 0'
            % ('30 seeded random (those with ns<=3)' if tier == 'quick' else '150 seeded random ns<=4 + exhaustive ns<=2,np<=2,nl<=2'))


def tasks(tier, seed):
    shs = shapes.shape_set(tier, seed, twosided=True, quick_n=30, thorough_n=150)
    if tier == 'quick':
        shs = [s for s in shs if s.ns <= 3]
    else:
        seen = {s.shape_key() for s in shs}
        for dims in ((3, 2, 2, 2), (3, 2, 2, 1), (2, 2, 2, 2)):
            for s in shapes.enumerate_shapes(dims[0], dims[1], dims[2], dims[3], True):
                if s.shape_key() not in seen:
                    seen.add(s.shape_key())
                    shs.append(s)
    return [{'shape': lpchecks.shape_data(I)} for I in shs]


def run_task(task):
    I = lpchecks.shape_from(task['shape'])
    res = {'obligations': 0, 'discharged': 0, 'unknown': 0, 'cex': [], 'queries': 0, 'solver_time': 0.0,
           'paths': 0, 'nontrivial': 0, 'controls': {}}

    def body():
        e = S.engine()
        run = e2.run_e2(I, {'twopl'}, [], solve=False)
        model = run.solver.model
        J = run.inst
        assign, choice = [], []
        for i, row in enumerate(model.pairs):
            a = e.fresh_int('a')
            e.assume((a >= 0) & (a <= len(row)))
            k = int(a)     # forks over every feasible value
            choice.append(k)
            assign.append(None if k == 0 else row[k - 1])
        # precondition: upper quotas respected
        pcount = [0] * J.np
        lcount = [0] * J.nl
        for pr in assign:
            if pr is not None:
                pcount[pr.project_index] += 1
                lcount[pr.lecturer_index] += 1
        for j in range(J.np):
            e.assume(z3.IntVal(pcount[j]) <= J.puq[j])
        for k in range(J.nl):
            e.assume(z3.IntVal(lcount[k]) <= J.luq[k])
        e.notes['J'] = J
        e.notes['assign'] = [0 if pr is None else pr.projectID for pr in assign]
        return model.check_stability(assign)

    E = S.Engine(max_paths=60000, timeout=1500)
    paths = E.explore(body)
    res['paths'] = len(paths)
    res['queries'] += E.stats['solver_queries']
    res['solver_time'] += E.stats['solver_time']
    seen_tags = {}
    for p in paths:
        J = p.notes.get('J')
        ass = p.notes.get('assign')
        res['obligations'] += 1
        if J is None:
            res['cex'].append({'tag': 'setup/%s' % type(p.exc).__name__, 'what': 'model construction raised %r' % (p.exc,),
                               'data': {'shape': task['shape']}})
            continue
        x = {(s, pp): (1 if ass[s - 1] == pp else 0) for (s, pp, _) in J.pairs()}

        def data(m):
            C = rp.concretize_inst(J, m)
            return {'inst': rp.inst_to_data(C), 'assign': ass}
        if p.exc is not None:
            tag = 'exception/%s/%s' % (type(p.exc).__name__, lpchecks.repo_site(p.exc))
            if seen_tags.get(tag, 0) < 3:
                seen_tags[tag] = seen_tags.get(tag, 0) + 1
                s = z3.Solver()
                s.add(*p.pc)
                if s.check() == z3.sat:
                    res['cex'].append({'tag': tag, 'what': 'check_stability raised %r' % (p.exc,), 'data': data(s.model())})
            continue
        if not isinstance(p.result, bool):
            res['cex'].append({'tag': 'nonbool', 'what': 'returned %r' % (p.result,), 'data': {'shape': task['shape']}})
            continue
        claim = spec.stable(J, x, Z) if p.result else z3.Not(spec.stable(J, x, Z))
        r, m = S.holds(p.pc, claim)
        res['queries'] += 1
        res['nontrivial'] += 1 if len(p.pc) > J.ns * 2 + J.np + J.nl else 0
        if r == 'unsat':
            res['discharged'] += 1
        elif r == 'unknown':
            res['unknown'] += 1
        else:
            tag = 'wrong/%s' % ('true-but-blocked' if p.result else 'false-but-stable')
            if seen_tags.get(tag, 0) < 3:
                seen_tags[tag] = seen_tags.get(tag, 0) + 1
                res['cex'].append({'tag': tag, 'what': 'check_stability returned %s but the assignment is %s' % (
                    p.result, 'blocked' if p.result else 'stable'), 'data': data(m)})
    res['sample'] = {'shape': task['shape'], 'paths': len(paths)}
    return res


def replay(cex):
    d = cex['data']
    if 'inst' not in d:
        return False, 'no instance'
    I = rp.inst_from_data(d['inst'])
    ns = repo.load('real')
    import os, shutil, tempfile
    tmp = tempfile.mkdtemp(prefix='vf_c06_')
    try:
        path = os.path.join(tmp, 'i.txt')
        with open(path, 'w') as f:
            f.write(spec.inst_to_text(I))
        s = ns.solver.Solver(['-f', path, '-na', str(I.na), '-twopl'])
    finally:
        shutil.rmtree(tmp, ignore_errors=True)
    m = s.model
    assign = []
    for i, pid in enumerate(d['assign']):
        assign.append(None if pid == 0 else [pr for pr in m.pairs[i] if pr.projectID == pid][0])
    x = {(st, pp): (1 if d['assign'][st - 1] == pp else 0) for (st, pp, _) in I.pairs()}
    want = spec.stable(I, x, P)
    hdr = 'instance:\n%sassignment %s; no blocking pair: %s' % (spec.inst_to_text(I, trailer=False), d['assign'], want)
    try:
        got = m.check_stability(assign)
    except Exception as e:  # noqa
        return True, hdr + '\nModel.check_stability raised %s: %s' % (type(e).__name__, e)
    return (got is not want), hdr + '\nModel.check_stability returned %r' % (got,)


def describe_task(t):
    return t


def task_cost(t):
    sh = t['shape']
    c = 1
    for gs in sh['prefs']:
        c *= (1 + sum(len(g) for g in gs))
    return c


if __name__ == '__main__':
    raise SystemExit(harness.main(__import__('sys').modules[__name__]))
