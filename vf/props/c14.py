"""C14 - a run that was cut short or proved infeasible never presents a matching."""
import itertools
import random
import re

import z3

from .. import harness, repo, lpchecks, shapes, e2, spec, lp, replay as rp
from .. import pulpshim as shim
from .. import sym as S

ID = 'C14'
LEVEL = 'fault_enumeration'
ENGINE = 'pathsym + E2 shim fault injection + symbolic clock (z3)'
FUNCTIONS = ['solver.Solver.solve/get_results/get_results_short/get_results_long', 'lp_solver.LP_Solver.run/run_optimisations/optimisation_*/perform_optimisation',
             'model.Model.get_results (Timeout / status short-circuit)']
EXPLANATION = (
    'Fault enumeration with symbolic environment: the real Solver.solve + get_results* run against the PuLP stand-in whose k-th solve returns an injected '
    'outcome (Infeasible, Unbounded, Undefined, Not Solved; variable values left untouched or arbitrary; with a time limit also "stopped at the limit with an '
    'incumbent, reported Optimal"), transient or persistent, single faults at every solve position (incl. the per-rank solves inside generous/greedy) and '
    'pairs of faults. The wall clock is a symbolic non-decreasing clock (a limit stop consumes more than the limit), the time limit is None or a symbolic '
    'non-negative real (quotas concrete). On every path z3 proves under the path condition: no matching line and no statistics line; "Timeout" is shown iff a '
    'limit is set and the run exceeded it or was left Not Solved, otherwise the FIRST non-optimal status is shown.')
ASSUMPTIONS = ['back end contract for faults: any of the five PuLP statuses at any solve; values after a failed solve are untouched or arbitrary',
               'a time-limit stop consumes more wall time than the limit; clock readings are non-decreasing reals',
               'at most two faults per run']
LEVEL_TEXT = ('Fault enumeration over (solve position x failure kind x transient/persistent, and pairs) with the clock, the time limit, quotas and returned '
              'values symbolic; per-path claims on the result text discharged by z3.')
LEVEL_NOTE = 'Trusted: z3, PuLP stand-in, the fault contract above. Outside: sequences longer than the bound, more than two faults, faults inside CBC that PuLP turns into exceptions.'
TECHNIQUE = 'fault injection at the solve boundary of the real solver code under symbolic execution (symbolic clock, time limit, values); z3 proves the result text shows no matching and the first non-optimal status / Timeout'
RULE = 'one case per (shape, criteria sequence, time limit on/off, fault schedule); non-trivial = schedule whose first fault is reached by the run'
EXHAUSTIVE = {}

KINDS = {'Infeasible': -1, 'Unbounded': -2, 'Undefined': -3, 'Not Solved': 0}
STATS = ['matching:', 'size:', 'cost:', 'cost_sq:', 'degree:', 'profile:', 'max_lec_abs_diff:', 'sum_lec_abs_diff:', 'stability_correct:',
         'Student_assignments', 'Project_assignments', 'Lecturer_assignments']


def BOUNDS(tier):
    return ('shapes: 3 corner shapes (max rank up to 3); criteria sequences: none, singles, %s; single faults at every solve position x 4 statuses (+ limit stop) '
            'x {transient, persistent} x {values untouched, arbitrary}; %s fault pairs per sequence; time limit None / symbolic'
            % (('14 pairs (sampled), flags -twopl / -twopl -stab / -pc', '10') if tier == 'quick' else ('24 pairs from a pool of 6 + 4 triples (sampled), flags -twopl / -twopl -stab / -pc', '24')))


def shapes_c14():
    cs = shapes.corner_shapes()
    pick = [s for s in cs if s.lprefs is not None and (s.ns, s.np) in ((3, 3), (2, 3), (1, 3))][:3]
    return pick


def tasks(tier, seed):
    rng = random.Random(seed + 1414)
    out = []
    pool = [('maxsize', []), ('gen', []), ('gre', []), ('mincost', []), ('lsb', []), ('minsize', [])]
    for I in shapes_c14():
        seqs = [[]] + [[c] for c in pool]
        pairs = [[a, b] for a in pool for b in pool if a != b]
        rng.shuffle(pairs)
        seqs += pairs[:14] if tier == 'quick' else pairs[:24]
        if tier == 'thorough':
            for _ in range(4):
                seqs.append(rng.sample(pool, 3))
        for seq in seqs:
            for flags in (['twopl'], ['twopl', 'stab'], ['pc']):
                for limit in (False, True):
                    out.append({'shape': lpchecks.shape_data(I), 'flags': flags, 'seq': seq, 'limit': limit,
                                'npairs': 10 if tier == 'quick' else 24, 'seed': rng.randrange(10 ** 6)})
    return out


def fault_hook(schedule, persistent, values_mode, clock_holder):
    """schedule: {solve index: kind}; persistent: (from index, kind) or None"""
    def factory(run):
        def hook(prob, snap, solver):
            e = S.engine()
            n = len(run.snaps)
            kind = schedule.get(n)
            if kind is None and persistent is not None and n >= persistent[0]:
                kind = persistent[1]
            pt = lp.Point(snap, 'w%d' % n)
            snap.point = pt
            snap.fault = kind
            run.snaps.append(snap)
            if kind is None or kind == 'LimitStop':
                for var in snap.variables:
                    var.varValue = S.SymInt(pt.v[id(var)])
                if kind == 'LimitStop':
                    clk = run.clock
                    clk.min_gap = solver.timeLimit
                return shim.LpStatusOptimal
            if values_mode == 'arbitrary':
                for var in snap.variables:
                    var.varValue = S.SymInt(pt.v[id(var)])
            return KINDS[kind]
        return hook
    return factory


class Clock(e2.SymClock):
    """a limit stop consumes more than the limit: the next reading is later than
    the previous one by more than min_gap"""

    def __init__(self):
        e2.SymClock.__init__(self)
        self.min_gap = None

    def now(self):
        e = S.engine()
        prev = self.last
        inst = e2.SymClock.now(self)
        if self.min_gap is not None and prev is not None:
            e.assume(inst.t > prev + self.min_gap)
            self.min_gap = None
        return inst


def run_case(I, flags, seq, limit, schedule, persistent, values_mode, getter):
    def body():
        e = S.engine()
        tl = None
        if limit:
            tl = e.fresh_real('limit')
            e.assume(tl >= 0)     # a limit of 0 (or 0.0) is a limit that was set
        clk = Clock()
        ns = repo.load('shim')
        # quotas are concrete here: the property is about solver outcomes and the clock, and symbolic quotas would only
        # multiply the paths when the code under test branches on them
        run = e2.run_e2(I, flags, seq, hook_factory=fault_hook(schedule, persistent, values_mode, None),
                        time_limit=tl, clock=clk, numerics=e2.concrete_numerics(I, 0))
        e.notes['run'] = run
        e.notes['tl'] = tl
        e.notes['clock'] = clk.instants
        return getattr(run.solver, getter)() if getter else None
    E = S.Engine(max_paths=600, timeout=300)
    try:
        return E, E.explore(body), True
    except S.Inconclusive as ex:
        # a run that forks over matchings after a failed solve: keep what was explored
        return E, getattr(ex, 'paths', []), False


def count_solves(I, flags, seq):
    E, paths, _ = run_case(I, flags, seq, False, {}, None, 'none', None)
    if not paths or paths[0].exc is not None:
        return None
    return len(paths[0].notes['run'].snaps)


def run_task(task):
    res = {'obligations': 0, 'discharged': 0, 'unknown': 0, 'cex': [], 'queries': 0, 'solver_time': 0.0,
           'paths': 0, 'nontrivial': 0, 'controls': {}}
    I = lpchecks.shape_from(task['shape'])
    flags = set(task['flags'])
    seq = [(c, list(a)) for c, a in task['seq']]
    limit = task['limit']
    rng = random.Random(task['seed'])
    K = count_solves(I, flags, seq)
    if K is None:
        raise RuntimeError('fault-free run failed')
    kinds = list(KINDS) + (['LimitStop'] if limit else [])
    schedules = []
    for k in range(K):
        for kind in kinds:
            for mode in (('none', 'arbitrary') if kind in ('Infeasible', 'Not Solved') or task['npairs'] > 6 else ('none',)):
                schedules.append(({k: kind}, None, mode))
            if kind != 'LimitStop':
                schedules.append(({}, (k, kind), 'none'))
    allpairs = [(a, ka, b, kb) for a in range(K) for b in range(a + 1, K) for ka in kinds for kb in kinds]
    rng.shuffle(allpairs)
    for (a, ka, b, kb) in allpairs[:task['npairs']]:
        schedules.append(({a: ka, b: kb}, None, rng.choice(['none', 'arbitrary'])))
    getters = ['get_results', 'get_results_long']
    samples = []
    for si, (schedule, persistent, mode) in enumerate(schedules):
        if len(res['cex']) >= 12:
            break      # enough counterexamples from this task; the rest of its schedules are skipped
        getter = getters[si % 2]
        E, paths, complete = run_case(I, flags, seq, limit, schedule, persistent, mode, getter)
        res['paths'] += len(paths)
        if not complete:
            res['obligations'] += 1
            res['unknown'] += 1
        res['queries'] += E.stats['solver_queries']
        res['solver_time'] += E.stats['solver_time']
        for p in paths:
            run = p.notes.get('run')
            data = {'shape': task['shape'], 'flags': sorted(flags), 'seq': seq, 'limit': limit,
                    'schedule': {str(k): v for k, v in schedule.items()}, 'persistent': persistent, 'values': mode, 'getter': getter}
            res['obligations'] += 1
            if p.exc is not None:
                res['cex'].append({'tag': 'exception/%s/%s' % (type(p.exc).__name__, lpchecks.repo_site(p.exc)),
                                   'what': 'run with an injected solver failure raised %r' % (p.exc,), 'data': data})
                continue
            snaps = run.snaps
            faults = [(i, s_.fault) for i, s_ in enumerate(snaps) if s_.fault is not None]
            if not faults:
                res['discharged'] += 1   # schedule not reached (earlier exit): nothing to claim
                continue
            res['nontrivial'] += 1
            text = p.result
            first_status = next((f for _, f in faults if f != 'LimitStop'), None)
            shown = [l for l in STATS if re.search(r'^%s' % re.escape(l), text, re.M)]
            tl = p.notes['tl']
            has_timeout = bool(re.search(r'^Timeout: ', text, re.M))
            m = re.search(r'^pulp_status: (.*)$', text, re.M)
            status_line = m.group(1).strip() if m else None
            claims = [('no matching and no statistics after a failed solve (shown: %s)' % shown, z3.BoolVal(not shown))]
            if tl is None:
                claims.append(('first non-optimal status is shown', z3.BoolVal(status_line == first_status and not has_timeout)))
            else:
                ts = p.notes['clock']
                total = S.term_of(ts[-1]) - S.term_of(ts[0])
                must_timeout = z3.Or(total > tl.t, z3.BoolVal(first_status == 'Not Solved'))
                if has_timeout:
                    claims.append(('Timeout only when the limit was exceeded or the run left Not Solved', must_timeout))
                else:
                    claims.append(('Timeout shown when the limit was exceeded or the run left Not Solved', z3.Not(must_timeout)))
                    claims.append(('first non-optimal status is shown', z3.BoolVal(status_line == first_status)))
            ok_all = True
            for name, c in claims:
                if tl is None:
                    r, mdl = S.holds(p.pc, c)
                    res['queries'] += 1
                else:
                    # limits of at least a second first (their counterexamples replay without real CBC being cut short), then
                    # the smaller ones, then the limit 0
                    for dom in (tl.t >= 1, z3.And(tl.t > 0, tl.t < 1), tl.t == 0):
                        r, mdl = S.holds(list(p.pc) + [dom], c)
                        res['queries'] += 1
                        if r != 'unsat':
                            break
                if r == 'unknown':
                    res['unknown'] += 1
                    ok_all = False
                elif r != 'unsat':
                    ok_all = False
                    d2 = dict(data)
                    d2['inst'] = rp.inst_to_data(rp.concretize_inst(run.inst, mdl))
                    if tl is not None and mdl is not None:
                        # the limit and the clock readings of the counter-model: the replay scripts the clock with them
                        d2['tl'] = _num(mdl, tl.t)
                        d2['clock'] = [_num(mdl, S.term_of(t)) for t in p.notes['clock']]
                    res['cex'].append({'tag': 'text/%s/%s/%s' % (name.split(' (')[0], 'inner' if len(faults) and _inner(snaps, faults[0][0]) else 'outer',
                                                                 'limit-stop' if any(f == 'LimitStop' for _, f in faults) else faults[0][1].replace(' ', '')),
                                       'what': '%s; schedule %s persistent %s' % (name, schedule, persistent), 'data': d2})
            if ok_all:
                res['discharged'] += 1
        if si < 2 and paths and paths[0].exc is None:
            samples.append({'schedule': schedule, 'persistent': persistent, 'text_tail': paths[0].result[-160:]})
    res['sample'] = {'shape': task['shape'], 'seq': seq, 'limit': limit, 'solves': K, 'schedules': len(schedules), 'examples': samples}
    return res


def _inner(snaps, k):
    """is solve k a per-rank solve of generous/greedy that is followed by another per-rank solve"""
    nm = ','.join(v.name for v in snaps[k].objective.terms) if snaps[k].objective is not None else ''
    return 'rank' in nm


def _num(mdl, t):
    v = mdl.eval(t, model_completion=True)
    try:
        f = v.as_fraction()
        return float(f)
    except Exception:  # noqa
        return float(v.as_decimal(12).rstrip('?'))


class ScriptedClock:
    """replay clock: the readings of the counter-model, as real datetime objects (module stand-in for `datetime` / `time`)"""

    def __init__(self, readings):
        import datetime as _dt
        self._dt = _dt
        self.base = _dt.datetime(2020, 1, 1)
        self.readings = list(readings)
        self.read = []
        self.datetime = self
        self.timedelta = _dt.timedelta

    def _next(self):
        v = self.readings[len(self.read)] if len(self.read) < len(self.readings) else (self.read[-1] if self.read else 0.0)
        if self.read and v < self.read[-1]:
            v = self.read[-1]
        self.read.append(v)
        return v

    def now(self, tz=None):
        return self.base + self._dt.timedelta(seconds=self._next())

    def time(self):
        return self._next()

    perf_counter = monotonic = time

    def __getattr__(self, name):
        return getattr(self.__dict__['_dt'], name)


def replay(cex):
    """scripted back end on real PuLP: real CBC except at the faulty solves"""
    d = cex['data']
    if 'inst' not in d:
        I = lpchecks.shape_from(d['shape'])
        I = I.with_numerics([0] * I.np, [I.ns] * I.np, [0] * I.nl, [1] * I.nl, [I.ns] * I.nl)
    else:
        I = rp.inst_from_data(d['inst'])
    import os, shutil, tempfile, time
    import pulp
    ns = repo.load('real')
    schedule = {int(k): v for k, v in d['schedule'].items()}
    persistent = d['persistent']
    limit = (0.05 if 'LimitStop' in list(schedule.values()) else 5.0) if d['limit'] else None
    clock = None
    if d.get('clock') and d.get('tl') is not None:
        # the wall clock is scripted with the readings of the counter-model (like the solver outcomes)
        limit = d['tl']
        clock = ScriptedClock(d['clock'])
    orig = pulp.LpProblem.solve
    state = {'n': 0, 'faults': []}

    def scripted(self, solver=None, **kw):
        n = state['n']
        state['n'] += 1
        kind = schedule.get(n)
        if kind is None and persistent is not None and n >= persistent[0]:
            kind = persistent[1]
        if kind is None:
            return orig(self, solver, **kw)
        state['faults'].append(kind)
        if kind == 'LimitStop':
            st = orig(self, solver, **kw)
            if clock is None:
                time.sleep(limit + 0.03)
            return st
        self.status = KINDS[kind]
        return self.status
    tmp = tempfile.mkdtemp(prefix='vf_c14_')
    try:
        path = os.path.join(tmp, 'i.txt')
        with open(path, 'w') as f:
            f.write(spec.inst_to_text(I))
        argv = ['-f', path, '-na', str(I.na)] + ['-' + f for f in d['flags']] + e2.opts_to_argv([(c, list(a)) for c, a in d['seq']])
        pulp.LpProblem.solve = scripted
        unclock = e2.install_shadows_clock(ns, clock) if clock is not None else (lambda: None)
        try:
            s = ns.solver.Solver(argv)
            s.solve(msg=False, timeLimit=limit)
            text = getattr(s, d['getter'])()
        except Exception as e:  # noqa
            return True, 'argv %s schedule %s: raised %r' % (argv[2:], schedule, e)
        finally:
            pulp.LpProblem.solve = orig
            unclock()
    finally:
        shutil.rmtree(tmp, ignore_errors=True)
    if not state['faults']:
        return False, 'fault not reached'
    shown = [l for l in STATS if re.search(r'^%s' % re.escape(l), text, re.M)]
    m = re.search(r'^pulp_status: (.*)$', text, re.M)
    status_line = m.group(1).strip() if m else None
    first = next((f for f in state['faults'] if f != 'LimitStop'), None)
    timeout = bool(re.search(r'^Timeout: ', text, re.M))
    bad = bool(shown)
    if not timeout and first is not None and status_line != first:
        bad = True
    if limit is not None and (first == 'Not Solved' or 'LimitStop' in state['faults']) and not timeout:
        bad = True
    if clock is not None:
        total = (clock.read[-1] - clock.read[0]) if clock.read else 0.0
        must = total > limit or first == 'Not Solved'
        bad = bool(shown) or (timeout != must) or (not timeout and first is not None and status_line != first)
        return bad, 'instance:\n%sargv %s; time limit %s; injected %s (persistent %s); scripted clock readings %s; result shows status %r, Timeout %s (expected %s), statistic lines %s' % (
            spec.inst_to_text(I, trailer=False), argv[2:], limit, schedule, persistent, clock.read, status_line, timeout, must, shown)
    if timeout and (limit is None or (first != 'Not Solved' and 'LimitStop' not in state['faults'])):
        bad = True     # the 5 s limit was not exceeded by this millisecond run
    return bad, 'instance:\n%sargv %s; injected %s (persistent %s); result shows status %r, Timeout %s, statistic lines %s' % (
        spec.inst_to_text(I, trailer=False), argv[2:], schedule, persistent, status_line, timeout, shown)


def describe_task(t):
    return {k: t[k] for k in ('shape', 'flags', 'seq', 'limit')}


def task_cost(t):
    return (1 + len(t['seq'])) ** 2 * (3 if any(c in ('gen', 'gre') for c, _ in t['seq']) else 1)


if __name__ == '__main__':
    raise SystemExit(harness.main(__import__('sys').modules[__name__]))
