"""C01 - reported matching is always a valid matching of the input instance."""
import random

from .. import harness, lpchecks, shapes
from ..lpchecks import SINGLES

ID = 'C01'
LEVEL = 'other'
FUNCTIONS = ['solver.Solver.__init__', 'solver.Solver.solve', 'fileIO._import_from_file',
             'fileIO._get_simple_pref_list_and_ranks', 'model.Model.pulp_setup',
             'model.Model.set_project_lists/set_lecturer_lists/set_rank_lists',
             'lp_solver.LP_Solver.__init__/run/add_constraints/upper_lower_constraints',
             'lp_solver.LP_Solver.stability_constraints/loadbalancing_constraints',
             'lp_solver.LP_Solver.run_optimisations/optimisation_*/perform_optimisation',
             'options_parser.Options_parser.parse']
EXPLANATION = (
    'Bounded SMT verification of the real code (engine E2): the unmodified Solver/fileIO/lp_solver code is '
    'executed on a real instance file whose quotas and targets are placeholder tokens mapped to z3 integers, '
    'against a recording stand-in for PuLP; the integer program handed to the last solve is translated to a '
    'z3 formula over symbolic quotas and all MILP points, and z3 decides  P_final(x,aux) and not Valid_spec(x)  '
    'unsat (if some point is invalid, a second exists-forall query asks whether an *optimal* point of the '
    'solve chain is invalid).  Valid_spec is written from the property text. Counterexamples are replayed on '
    'real PuLP + CBC with the matching pinned.')
ASSUMPTIONS = [
    'MILP back end returns an optimal integral point within bounds of the problem it is handed (CBC itself is outside the claim)',
    'recording shim implements the PuLP surface used by the repository (validated against real PuLP by C02 translation validation)',
    'a sample of the QF obligations is re-decided by cvc5 1.0.3 from the SMT-LIB2 text; a disagreement is a harness error',
    'quotas/targets are arbitrary integers >= 0 (no upper bound); shape (who ranks whom, ties, project->lecturer) is enumerated',
    'read-back of the matching from variable values is covered by C11',
]
LEVEL_TEXT = ('Bounded SMT verification of the real code: for every enumerated instance shape and option set z3 shows that no '
              'point (and, where needed, no optimal point) of the integer program built by the real code is an invalid matching, '
              'for ALL quota/target values and ALL MILP tie-breaks at once; shapes are bounded (ns<=4, np<=3, nl<=3).')
LEVEL_NOTE = ('Trusted: z3, the recording PuLP stand-in (translation-validated against real PuLP in C02), the specification of validity '
              'in vf/spec.py. Outside the claim: CBC, shapes beyond the bound, the text read-back (C11).')
TECHNIQUE = 'symbolic execution of the real constraint builder (symbolic quotas) + SMT (z3) validity query over all MILP points; CBC replay of counterexamples'
RULE = 'one task per (shape, flag set, criteria sequence); non-trivial = a solve snapshot was produced and at least one z3 obligation decided'


def BOUNDS(tier):
    return ('shapes: corner set + seeded random shapes with ns<=4, np<=3, nl<=3 (quick ~%d, thorough ~%d), 2- and 3-agent, '
            'one/two-sided; flag sets: all of -twopl/-pc/-stab admissible for the shape; criteria: none, each single '
            'criterion (default args + one non-default), seeded pairs/triples; thorough additionally: EVERY shape with <= 2 students, <= 2 projects, <= 2 lecturers '
            '(none + the 9 single criteria); numerics symbolic >= 0 unbounded') % (100, 330)


def tasks(tier, seed):
    rng = random.Random(seed + 101)
    shs = shapes.shape_set(tier, seed, quick_n=90, thorough_n=300)
    out = []
    extra = [('gen', [2]), ('gre', [1]), ('mincost', [2, 3]), ('minsqcost', [1, 2]), ('mincostlsb', [2, 3])]
    for I in shs:
        for flags in lpchecks.flag_sets_for(I):
            seqs = [[]] + [[c] for c in SINGLES]
            if tier == 'thorough':
                seqs += [[c] for c in extra]
                n_multi = 6
            else:
                seqs += [[rng.choice(extra)]]
                n_multi = 2
            for _ in range(n_multi):
                k = rng.choice([2, 2, 3])
                seqs.append(rng.sample(SINGLES + extra[:2], k))
            seqs = [s for s in seqs if lpchecks.admissible(I, s)]
            for s in seqs:
                out.append({'prop': ID, 'shape': lpchecks.shape_data(I), 'flags': flags,
                            'seq': s, 'forms': ['valid'], 'wf': False})
    if tier == 'thorough':
        # every shape with at most 2 students, 2 projects, 2 lecturers (up to lecturer relabelling), one- and two-sided
        seen = {s.shape_key() for s in shs}
        for dims in ((3, 2, 2, 2), (3, 2, 2, 1), (3, 1, 2, 2), (2, 2, 2, 2), (2, 1, 2, 2)):
            for two in (True, False):
                for I in shapes.enumerate_shapes(dims[0], dims[1], dims[2], dims[3], two):
                    if I.shape_key() in seen:
                        continue
                    seen.add(I.shape_key())
                    for flags in lpchecks.flag_sets_for(I):
                        for s in [[]] + [[c] for c in SINGLES]:
                            out.append({'prop': ID, 'shape': lpchecks.shape_data(I), 'flags': flags,
                                        'seq': s, 'forms': ['valid'], 'wf': False})
    # a sample of the quantifier-free obligations is re-decided by cvc5 (disagreement = harness error)
    for t in out[::max(1, len(out) // (40 if tier == 'quick' else 200))]:
        t['cvc5'] = True
    return out


run_task = lpchecks.analyse
describe_task = lpchecks.describe_task
task_cost = lpchecks.task_cost
replay = lpchecks.replay_cex

if __name__ == '__main__':
    raise SystemExit(harness.main(__import__('sys').modules[__name__]))
