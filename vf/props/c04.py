"""C04 - several criteria compose lexicographically in the user-given order."""
import random

from .. import harness, lpchecks, shapes
from ..lpchecks import SINGLES
from ._lpcommon import FUNCTIONS, BASE_ASSUMPTIONS

ID = 'C04'
LEVEL = 'other'
ENGINE = 'pathsym + lp2smt E2 (z3 exists-forall)'
EXPLANATION = (
    'Bounded SMT verification of the real code (E2). For ordered selections of 2-3 criteria the command line is produced with '
    'SHUFFLED flag order and GAPPED position numbers, so the order goes through the real options_parser. The real solve chain '
    '(all solves, each followed by the real freeze constraint) is recorded with symbolic quotas; z3 decides the exists-forall '
    'obligation that no matching satisfying the requested constraints is lexicographically better than the reported one for the '
    'sequence of DOCUMENTED measures in increasing position order. Twin (chain satisfiable) and flipped-oracle controls guard '
    'against vacuity. Counterexamples are replayed on real PuLP + CBC with the matching pinned.')
ASSUMPTIONS = BASE_ASSUMPTIONS + [
    'well-formed instance: lower <= upper per project, lower <= target <= upper per lecturer',
    'multipliers / cut-offs concrete, plus pairs in which the cost weights are symbolic integers >= 0; sequences of length 2 and 3']
LEVEL_TEXT = ('Bounded SMT verification of the real code: exists-forall query (all quotas, all MILP tie-breaks) that the reported matching is '
              'lexicographically optimal for the documented measures in position order; ordered pairs/triples and shapes bounded.')
LEVEL_NOTE = 'Trusted: z3 quantifier reasoning + qe tactic, PuLP stand-in, vf/spec.py. Outside: CBC, sequences longer than 3, shapes beyond the bound.'
TECHNIQUE = 'symbolic execution of the real option parser + LP builder (symbolic quotas) + exists-forall SMT (z3) lexicographic-optimality query over the whole solve chain; CBC replay'
RULE = 'one task per (shape, flag set, ordered criteria selection with shuffled flags and gapped positions); non-trivial = chain recorded and lexicographic obligation decided'


def BOUNDS(tier):
    return ('shapes: corner set + seeded random ns<=4, np<=3, nl<=3; flag sets all admissible; ordered pairs: %s; triples: %s; '
            'positions: random increasing subset of 1..9, flags shuffled' % (
                '16 conflict-prone pairs, 2 sampled per (shape, flags)' if tier == 'quick' else 'all 72 ordered pairs spread over shapes, 6 per (shape, flags)',
                '1 per (shape, flags)' if tier == 'quick' else '3 per (shape, flags)'))


CONFLICT = [('maxsize', 'mincost'), ('mincost', 'maxsize'), ('lsb', 'maxsize'), ('maxsize', 'lsb'), ('minsize', 'gre'),
            ('gre', 'minsize'), ('gen', 'maxsize'), ('maxsize', 'gen'), ('lmb', 'mincost'), ('mincost', 'lmb'),
            ('mincostlsb', 'maxsize'), ('gre', 'gen'), ('gen', 'gre'), ('minsqcost', 'maxsize'), ('lmb', 'lsb'), ('mincost', 'minsqcost')]


def tasks(tier, seed):
    rng = random.Random(seed + 404)
    shs = [s for s in shapes.shape_set(tier, seed, quick_n=14, thorough_n=120) if not lpchecks.is_wide(s)]
    names = [c for c, _ in SINGLES]
    allpairs = [(a, b) for a in names for b in names if a != b]
    out = []
    k = 0
    for i, I in enumerate(shs):
        for flags in lpchecks.flag_sets_for(I):
            seqs = []
            if tier == 'quick':
                for _ in range(2):
                    a, b = CONFLICT[k % len(CONFLICT)]
                    k += 1
                    seqs.append([(a, []), (b, [])])
                seqs.append([(c, []) for c in rng.sample(names, 3)])
            else:
                for _ in range(6):
                    a, b = allpairs[k % len(allpairs)]
                    k += 1
                    seqs.append([(a, []), (b, [])])
                for _ in range(3):
                    seqs.append([(c, []) for c in rng.sample(names, 3)])
            # interactions between a profile criterion and a cost criterion with a lecturer weight / cut-offs
            WITH_ARGS = [[('gre', []), ('mincost', [1, 1])], [('gen', []), ('minsqcost', [0, 1])], [('maxsize', []), ('gen', []), ('mincost', [0, 1])],
                         [('mincost', [0, 1]), ('gre', [])], [('gre', [1]), ('mincost', [1, 2])], [('minsqcost', [1, 1]), ('gen', [])],
                         [('lsb', []), ('mincost', [0, 2])], [('gen', [2]), ('mincostlsb', [1, 0])]]
            seqs.append([(c_, list(a_)) for c_, a_ in WITH_ARGS[k % len(WITH_ARGS)]])
            # sometimes with arguments
            for s in seqs:
                for j, (c, a) in enumerate(s):
                    if c in ('mincost', 'minsqcost', 'mincostlsb') and rng.random() < 0.3:
                        s[j] = (c, [rng.randint(0, 2), rng.randint(0, 2)])
                    if c == 'gre' and rng.random() < 0.3:
                        s[j] = (c, [rng.randint(1, I.max_rank())])
            for s in seqs:
                if not lpchecks.admissible(I, s):
                    continue
                out.append({'prop': ID, 'shape': lpchecks.shape_data(I), 'flags': flags, 'seq': s,
                            'argv_seq': lpchecks.gapped_argv(s, rng),
                            'forms': ['opt'], 'wf': True, 'negctl': i < 3})
            # compositions in which the cost weights are symbolic (all multiplier values at once)
            SYM = [[('maxsize', []), ('mincost', ['sym', 'sym'])], [('mincost', ['sym', 'sym']), ('maxsize', [])],
                   [('gre', []), ('minsqcost', ['sym', 'sym'])], [('minsqcost', ['sym', 'sym']), ('gen', [])],
                   [('lsb', []), ('mincost', ['sym', 'sym'])], [('mincostlsb', ['sym', 1]), ('maxsize', [])]]
            for s in (SYM[k % len(SYM)], SYM[(k + 3) % len(SYM)]):
                out.append({'prop': ID, 'shape': lpchecks.shape_data(I), 'flags': flags, 'seq': s,
                            'forms': ['opt'], 'wf': True, 'symmult': True})
    return out


run_task = lpchecks.analyse
describe_task = lpchecks.describe_task
task_cost = lpchecks.task_cost
replay = lpchecks.replay_cex

if __name__ == '__main__':
    raise SystemExit(harness.main(__import__('sys').modules[__name__]))
