"""shared bits of the LP-property modules (C01-C05)"""
FUNCTIONS = ['solver.Solver.__init__', 'solver.Solver.solve', 'options_parser.Options_parser.parse',
             'fileIO.import_model/_import_from_file/_get_simple_pref_list_and_ranks',
             'model.Model.pulp_setup/set_project_lists/set_lecturer_lists/set_rank_lists/get_max_lec_upper_quota',
             'model.Pair.pulp_setup',
             'lp_solver.LP_Solver.__init__/run/add_constraints/upper_lower_constraints/stability_constraints/loadbalancing_constraints',
             'lp_solver.LP_Solver.run_optimisations/optimisation_maxsize/minsize/generous/greedy/mincost/minsqcost/mincostlsb/loadmaxbal/loadsumbal/perform_optimisation']
BASE_ASSUMPTIONS = [
    'MILP back end contract: when it answers Optimal it returns an optimal integral point, within bounds, of the problem it was handed; CBC itself is outside the claim',
    'recording PuLP stand-in (vf/pulpshim.py) implements the PuLP surface the repository uses; checked against real PuLP objects by translation validation in C02 and by CBC replays',
    'every quota/target is an arbitrary integer >= 0 (unbounded above); instance shape is enumerated within the stated bound',
]
EXTRA = [('gen', [2]), ('gre', [1]), ('gre', [2]), ('mincost', [2, 3]), ('mincost', [0, 1]), ('minsqcost', [1, 2]),
         ('mincostlsb', [2, 3]), ('mincostlsb', [0, 2]), ('mincostlsb', [3, 0])]
