"""C10 - the solver reads an instance file as the instance the file denotes."""
import os
import random
import re
import shutil
import tempfile

import z3

from .. import harness, repo, lpchecks, shapes, e2, spec, replay as rp
from .. import sym as S

ID = 'C10'
LEVEL = 'other'
ENGINE = 'pathsym + shadowed int (z3 term identity)'
FUNCTIONS = ['fileIO.import_model/_import_from_file/_get_simple_pref_list_and_ranks/_create_pairs_row/_create_student_ranks/_set_lecturers/_set_lecturer_ranks',
             'model.Model.set_project_lists/set_lecturer_lists/set_rank_lists/_get_max_rank/_pairs_string/_get_cost', 'model.Pair.__init__/set_lecturer/set_lecturer_rank/__str__',
             'solver.Solver.__init__', 'options_parser.Options_parser.parse']
EXPLANATION = (
    'Files are produced by an independent writer from enumerated structures (agent counts, tie groupings at start/middle/end/whole list, empty '
    'second-side lists, lecturers without projects, whitespace variants, trailing block present/absent, -na 2/3, -twopl on/off) in which EVERY quota and '
    'target is a placeholder token. The real Solver(argv) parses the file with the shadowed int, so every numeric Model field is a z3 term; z3 proves it is '
    'identical to the term the file denotes (so column routing and section boundaries are verified for all values at once). Structure is compared exactly: '
    'agent counts, pairs order with dense ranks, project->lecturer, lecturer ranks, project_lists / lecturer_lists / rank_lists, the 2-agent embedding (own '
    'lecturer, same lower/upper quota, target = upper), no lecturer rank and zero lecturer cost without -twopl, and the "Model instance information" text. '
    'A file with second-side lists is read three times in one process without being rewritten (given flags, other -twopl setting, given flags again) '
    'and every read must give the instance the file denotes under its own flags.')
ASSUMPTIONS = ['inter-token whitespace variants: single/double space, tab, space before colon; one token per number', 'lecturer lists contain at least the students ranking the lecturer (optionally all students)']
LEVEL_TEXT = ('Path-exhaustive symbolic execution of the real reader over an enumerated family of file structures with symbolic numerics; each Model field is '
              'proved (z3) equal to the denoted term. The solver\'s role is term identity and path feasibility; the strength is structural exhaustiveness within the bound.')
LEVEL_NOTE = 'Trusted: the independent writer/denotation in vf/spec.py, z3, vf/sym.py. Outside: files larger than the shape bound, whitespace beyond the variant set, malformed files.'
TECHNIQUE = 'symbolic execution of the real file reader on files with placeholder numerics (shadowed int); z3 proves every Model numeric equals the denoted term; exact structural comparison'
RULE = 'one task per (shape, whitespace variant, trailer, -twopl); non-trivial = file with at least one tie group or shared lecturer'
EXHAUSTIVE = {}

VARIANTS = [(' ', ': '), ('  ', ':  '), ('\t', ':\t'), (' ', ' : ')]


def BOUNDS(tier):
    return ('shapes: corner set + %s (ns<=4, np<=3, nl<=3), 2- and 3-agent; 4 whitespace variants; trailing block present/absent; with and without -twopl; '
            'second-side lists exact or listing all students; quotas/targets symbolic' % ('150 seeded random' if tier == 'quick' else '2000 seeded random + exhaustive ns<=2,np<=2,nl<=2'))


def tasks(tier, seed):
    rng = random.Random(seed + 1010)
    shs = shapes.shape_set(tier, seed, quick_n=150, thorough_n=2000)
    if tier == 'thorough':
        seen = {s.shape_key() for s in shs}
        for dims in ((3, 2, 2, 2), (2, 2, 2, 2)):
            for s in shapes.enumerate_shapes(dims[0], dims[1], dims[2], dims[3], True):
                if s.shape_key() not in seen:
                    seen.add(s.shape_key())
                    shs.append(s)
    out = []
    for i, I in enumerate(shs):
        for twopl in ([False, True] if I.lprefs is not None else [False]):
            v = None
            for vi in ([v] if v is not None else range(len(VARIANTS))):
                out.append({'shape': lpchecks.shape_data(I), 'twopl': twopl, 'variant': vi, 'trailer': (i + vi) % 2 == 0,
                            'superset': I.lprefs is not None and rng.random() < 0.25})
    return out


def make_inst(task):
    I = lpchecks.shape_from(task['shape'])
    if task.get('superset') and I.lprefs is not None:
        # lecturer lists additionally rank (last, tied together) the students that do not rank them
        lp = []
        for groups in I.lprefs:
            have = {s for g in groups for s in g}
            rest = [s for s in range(1, I.ns + 1) if s not in have]
            lp.append([list(g) for g in groups] + ([rest] if rest else []))
        I = spec.Inst(I.na, I.ns, I.np, I.nl, I.prefs, I.plec, lp, None, None, None, None, None)
    return I


def compare(model, J, twopl, eq):
    """returns list of (name, ok-or-z3-claim)"""
    out = []
    out.append(('agent counts', (model.num_students, model.num_projects, model.num_lecturers) == (J.ns, J.np, J.nl)))
    want_rows = [[(s, p, r) for (s2, p, r) in J.pairs() if s2 == s] for s in range(1, J.ns + 1)]
    got_rows = [[(pr.studentID, pr.projectID, pr.rank_student) for pr in row] for row in model.pairs]
    out.append(('pairs order and dense student ranks', got_rows == want_rows))
    if got_rows != want_rows:
        return out
    out.append(('indices', all(pr.student_index == pr.studentID - 1 and pr.project_index == pr.projectID - 1 and
                               pr.lecturer_index == pr.lecturerID - 1 for row in model.pairs for pr in row)))
    out.append(('project -> lecturer', list(model.proj_lecturers) == list(J.plec) and
                all(pr.lecturerID == J.lec(pr.projectID) for row in model.pairs for pr in row)))
    if twopl:
        out.append(('lecturer ranks', all(getattr(pr, 'rank_lecturer', None) == J.lrank(J.lec(pr.projectID), pr.studentID)
                                         for row in model.pairs for pr in row)))
    else:
        out.append(('no lecturer rank without -twopl', all(not hasattr(pr, 'rank_lecturer') for row in model.pairs for pr in row)))
        allp = [pr for row in model.pairs for pr in row]
        out.append(('lecturer cost zero without -twopl', model._get_cost(allp)[1] == 0 and model._get_cost_sq(allp)[1] == 0))
    for name, got, want in (('project lower quotas', model.proj_lower_quotas, J.plq), ('project upper quotas', model.proj_upper_quotas, J.puq),
                            ('lecturer lower quotas', model.lec_lower_quotas, J.llq), ('lecturer targets', model.lec_targets, J.lt),
                            ('lecturer upper quotas', model.lec_upper_quotas, J.luq)):
        if len(got) != len(want):
            out.append((name + ' (count)', False))
        else:
            for a, b in zip(got, want):
                out.append((name, eq(a, b)))
    key = lambda pr: (pr.studentID, pr.projectID)
    out.append(('project_lists', [sorted(key(pr) for pr in l) for l in model.project_lists] ==
                [sorted((s, p) for (s, p, _) in J.pairs() if p == j + 1) for j in range(J.np)]))
    out.append(('lecturer_lists', [sorted(key(pr) for pr in l) for l in model.lecturer_lists] ==
                [sorted((s, p) for (s, p, _) in J.pairs() if J.lec(p) == k + 1) for k in range(J.nl)]))
    R = J.max_rank()
    out.append(('rank_lists', [sorted(key(pr) for pr in l) for l in model.rank_lists] ==
                [sorted((s, p) for (s, p, r) in J.pairs() if r == k) for k in range(1, R + 1)]))
    # the text of the 'Model instance information' block: one str(pair) + ' ' per pair, one line per student
    txt = ''.join(''.join(str(pr) + ' ' for pr in row) + '\n' for row in model.pairs)
    want_txt = ''
    for row in want_rows:
        for (s, p, r) in row:
            rl = (' rl%d' % J.lrank(J.lec(p), s)) if twopl else ''
            want_txt += '(s%d p%d rs%d l%d%s) ' % (s, p, r, J.lec(p), rl)
        want_txt += '\n'
    out.append(('Model instance information text', txt == want_txt))
    return out


def run_task(task):
    res = {'obligations': 0, 'discharged': 0, 'unknown': 0, 'cex': [], 'queries': 0, 'solver_time': 0.0,
           'paths': 0, 'nontrivial': 0, 'controls': {}}
    I = make_inst(task)
    sep, colon = VARIANTS[task['variant']]
    ns = repo.load('shim')

    def body():
        e = S.engine()
        flags = {'twopl'} if task['twopl'] else set()
        run = e2.run_e2(I, flags, [], solve=False, text_kw={'sep': sep, 'colon': colon, 'trailer': task['trailer']})
        e.notes['J'] = run.inst
        e.notes['text'] = run.text
        models = [('', task['twopl'], run.solver.model)]
        if I.lprefs is not None and not getattr(run, 'sentinel_mode', False):
            # a user who solves the SAME unchanged file again in one process, first with the other setting of -twopl and
            # then with the original one: each read must again give the instance the file denotes under ITS flags
            base = [a for a in run.argv if a != '-twopl']
            other = run.ns.solver.Solver(base + ([] if task['twopl'] else ['-twopl']))
            again = run.ns.solver.Solver(list(run.argv))
            models += [('re-read with the other -twopl setting: ', not task['twopl'], other.model),
                       ('third read, original flags: ', task['twopl'], again.model)]
        return models

    E = S.Engine(max_paths=256, timeout=300)
    paths = E.explore(body)
    res['paths'] = len(paths)
    res['queries'] += E.stats['solver_queries']
    has_tie = any(len(g) > 1 for gs in I.prefs for g in gs) or len(set(I.plec)) < len(I.plec)
    res['nontrivial'] = 1 if has_tie else 0
    for p in paths:
        J = p.notes['J']
        Jd = J if task['twopl'] else spec.Inst(J.na, J.ns, J.np, J.nl, J.prefs, J.plec, None, J.plq, J.puq, J.llq, J.lt, J.luq)
        if p.exc is not None:
            res['obligations'] += 1
            res['cex'].append({'tag': 'exception/%s/%s' % (type(p.exc).__name__, lpchecks.repo_site(p.exc)),
                               'what': 'reading a well-formed file raised %r' % (p.exc,), 'data': dict(task)})
            continue

        def eq(a, b):
            ta, tb = S.term_of(a), (b if z3.is_expr(b) else z3.IntVal(b))
            r, _ = S.holds(p.pc, ta == tb)
            res['queries'] += 1
            return r == 'unsat'
        for pre, tp, model in p.result:
            Jm = J if tp else spec.Inst(J.na, J.ns, J.np, J.nl, J.prefs, J.plec, None, J.plq, J.puq, J.llq, J.lt, J.luq)
            for name, ok in compare(model, Jm, tp, eq):
                res['obligations'] += 1
                if ok:
                    res['discharged'] += 1
                else:
                    res['cex'].append({'tag': 'field/%s%s' % ('reread/' if pre else '', name),
                                       'what': '%sModel differs from the instance the file denotes: %s' % (pre, name), 'data': dict(task)})
    res['sample'] = {'task': dict(task), 'file': paths[0].notes.get('text') if paths else None}
    return res


def replay(cex):
    """concrete replay: pairwise-distinct sentinel numerics, real code, no shadowing"""
    task = cex['data']
    I = make_inst(task)
    n = [0]

    def nxt():
        n[0] += 1
        return 100 + 7 * n[0]
    plq = [nxt() for _ in range(I.np)]
    puq = [nxt() for _ in range(I.np)]
    if I.na == 3:
        llq = [nxt() for _ in range(I.nl)]
        lt = [nxt() for _ in range(I.nl)]
        luq = [nxt() for _ in range(I.nl)]
    else:
        llq, lt, luq = list(plq), list(puq), list(puq)
    J = I.with_numerics(plq, puq, llq, lt, luq)
    sep, colon = VARIANTS[task['variant']]
    text = spec.inst_to_text(J, sep=sep, colon=colon, trailer=task['trailer'])
    ns = repo.load('real')
    one = spec.Inst(J.na, J.ns, J.np, J.nl, J.prefs, J.plec, None, J.plq, J.puq, J.llq, J.lt, J.luq)
    d = tempfile.mkdtemp(prefix='vf_c10r_')
    bad = []
    try:
        path = os.path.join(d, 'i.txt')
        # the path first holds a different instance (a user who edits a file and solves the same path again)
        with open(path, 'w') as f:
            f.write('1 1\n1: 1\n1: 0: 1: 1\n')
        try:
            ns.solver.Solver(['-f', path, '-na', '2'])
        except Exception:  # noqa
            pass
        with open(path, 'w') as f:
            f.write(text)
        # then the file under test; when it has second-side lists it is read again, unchanged, in this process with the
        # other setting of -twopl and a third time with the original flags
        reads = [('', task['twopl'])]
        if I.lprefs is not None:
            reads += [('re-read, other -twopl setting: ', not task['twopl']), ('third read, original flags: ', task['twopl'])]
        for pre, tp in reads:
            try:
                s = ns.solver.Solver(['-f', path, '-na', str(I.na)] + (['-twopl'] if tp else []))
            except Exception as e:  # noqa
                return True, 'file:\n%s\n%sSolver() raised %r' % (text, pre, e)
            bad += [pre + name for name, ok in compare(s.model, J if tp else one, tp, lambda a, b: a == b) if not ok]
    finally:
        shutil.rmtree(d, ignore_errors=True)
    return bool(bad), 'file (-na %d%s):\n%s\nfields that differ from the denoted instance: %s' % (
        I.na, ' -twopl' if task['twopl'] else '', text, bad or 'none')


def describe_task(t):
    return t


if __name__ == '__main__':
    raise SystemExit(harness.main(__import__('sys').modules[__name__]))
