"""C08 - generated files are well-formed instances of the requested type and parameters."""
import contextlib
import io
import os
import random
import re
import shutil
import tempfile

import z3

from .. import harness, repo, rngstub
from .. import sym as S

ID = 'C08'
LEVEL = 'other'
ENGINE = 'pathsym + RNG contract stubs (z3) + QF_FP lemma'
FUNCTIONS = ['generator.Generator.__init__', 'instance_options_parser.Instance_options_parser.parse/set_defaults',
             'generator_ha_sm_hr.Generator_ha_sm_hr.generate_instances/create_instance/create_instance_info',
             'generator_spa.Generator_spa.generate_instances/create_instance/create_instance_info/create_project_lecturers/create_student_lec_lists',
             'generator_shared.create_pref_lists_original/create_pref_lists_from_other_lists/create_ties_indicators/create_string_pref/create_quotas/create_linear_distribution']
EXPLANATION = (
    'The real Generator(argv) runs under symbolic execution with the random sources replaced by contract stubs that return fresh symbolic values (list lengths '
    'in the requested range, any pairwise-distinct draw from the population, any 0/1 tie vector - all 0 / all 1 for probability 0 / 1 -, any permutation), so one '
    'exploration covers every seed. The files it writes to a scratch directory are read back by an independent line reader that maps placeholder tokens to terms; '
    'per path z3 proves: file names 0..k-1, header counts, numbered first-side lists with pairwise-distinct entries in range whose length is the value drawn from '
    'exactly [pmin, pmax], the documented second-side columns with evenly spread quotas / targets / projects-per-lecturer (differences <= 1, larger first, requested '
    'totals), no ties for probability 0 and one whole-list tie for probability 1 on the side it was given for, second-side lists iff -twopl, and the parameter '
    'block. create_quotas is additionally proved for SYMBOLIC totals (n <= 8) and create_project_lecturers on a grid; int(a / n) == a // n in binary64 is a '
    'separate QF_FP lemma (a < 2^20, constant n <= 8) that justifies modelling the float division exactly.')
ASSUMPTIONS = list(rngstub.__doc__.strip().split('\n')[2:]) + ['floats are exact reals except for the QF_FP lemma on int(a / n)']
LEVEL_TEXT = ('Path-exhaustive symbolic execution of the real generator for enumerated small parameter vectors with ALL random outcomes symbolic; per-path '
              'well-formedness claims discharged by z3; symbolic-total quota spreading proved separately.')
LEVEL_NOTE = 'Trusted: z3, vf/sym.py, RNG contracts (vf/rngstub.py), the independent reader here. Outside: parameter vectors beyond the grid (n <= 3), binary64 rounding of probabilities.'
TECHNIQUE = 'symbolic execution of the real Generator with RNG contract stubs (all seeds at once); z3 proves per-path well-formedness of the emitted files; SMT proof of even quota spreading for symbolic totals; QF_FP lemma'
RULE = 'one task per parameter vector (gen), per n (quotas), per divisor (fp lemma); each feasible path is a case; non-trivial = path with a list of length >= 2'
EXHAUSTIVE = {}
NSPLIT = 12


def BOUNDS(tier):
    return ('types ha/sm/hr/spa; n1,n2 <= %d, n3 <= 2-3; pmin <= pmax <= n2; tie probabilities {0, 0.5, 1}; skew {1, 3}; numinst {1, 2}; one- and two-sided; '
            'create_quotas: n <= %d with symbolic total; fp lemma: divisors 1..8, a < 2^20' % ((2, 8) if tier == 'quick' else (3, 12)))


def vec(mp, **kw):
    d = {'mp': mp, 'numinst': 1}
    d.update(kw)
    return d


def tasks(tier, seed):
    out = []
    V = []
    V.append(vec('ha', n1=2, n2=2, pmin=1, pmax=2, uq=3, lq=1, t1=0.5))
    V.append(vec('ha', n1=2, n2=3, pmin=2, pmax=2, uq=4, t1=1.0, skew=3.0))
    V.append(vec('ha', n1=1, n2=2, pmin=1, pmax=2, uq=2, t1=0.0, numinst=2))
    V.append(vec('sm', n1=2, pmin=1, pmax=2, twopl=True, t1=0.5, t2=0.5))
    V.append(vec('sm', n1=2, pmin=2, pmax=2, twopl=True, t1=1.0, t2=0.0))
    V.append(vec('hr', n1=2, n2=2, pmin=1, pmax=2, uq=3, lq=2, twopl=True, t1=0.0, t2=1.0))
    V.append(vec('hr', n1=2, n2=3, pmin=1, pmax=1, uq=5, twopl=True, t1=0.5, t2=0.5, skew=3.0))
    V.append(vec('spa', n1=2, n2=3, n3=2, pmin=1, pmax=2, uq=4, lq=2, luq=3, llq=1, lt=2, t1=0.5))
    V.append(vec('spa', n1=2, n2=2, n3=3, pmin=1, pmax=2, uq=3, luq=4, twopl=True, t1=0.0, t2=0.5))
    V.append(vec('spa', n1=2, n2=3, n3=2, pmin=2, pmax=2, uq=3, luq=2, lt=1, twopl=True, t1=1.0, t2=1.0))
    if tier == 'thorough':
        V.append(vec('ha', n1=3, n2=3, pmin=1, pmax=3, uq=5, lq=2, t1=0.5))
        V.append(vec('hr', n1=3, n2=2, pmin=1, pmax=2, uq=4, lq=1, twopl=True, t1=0.5, t2=0.5))
        V.append(vec('hr', n1=2, n2=3, pmin=1, pmax=3, uq=3, twopl=True, t1=0.5, t2=0.0))
        V.append(vec('sm', n1=3, pmin=1, pmax=1, twopl=True, t1=0.5, t2=0.5))
        V.append(vec('spa', n1=3, n2=2, n3=2, pmin=1, pmax=1, uq=5, lq=1, luq=4, llq=2, lt=3, twopl=True, t1=0.5, t2=0.5))
        V.append(vec('spa', n1=2, n2=3, n3=3, pmin=1, pmax=3, uq=4, luq=3, twopl=False, t1=0.5))
        V.append(vec('hr', n1=1, n2=2, pmin=1, pmax=2, uq=2, twopl=True, t1=0.5, t2=0.5, numinst=2))
    for i, v in enumerate(V):
        if tier == 'thorough' and i >= 10:
            for k in range(NSPLIT):        # big vectors: exploration split over the worker processes
                out.append({'kind': 'gen', 'v': v, 'split': k})
        else:
            out.append({'kind': 'gen', 'v': v})
    for n in range(1, (8 if tier == 'quick' else 12) + 1):
        out.append({'kind': 'quotas', 'n': n})
    out.append({'kind': 'plec', 'N': 8 if tier == 'quick' else 12})
    for n in ([3, 7] if tier == 'quick' else range(1, 9)):
        out.append({'kind': 'fp', 'n': n})
    return out


def even_spread(n, total):
    q, r = divmod(total, n)
    return [q + (1 if i < r else 0) for i in range(n)]


def argv_of(v, outdir):
    a = ['-numinst', str(v['numinst']), '-o', outdir, '-mp', v['mp']]
    for k, fl in (('n1', '-n1'), ('n2', '-n2'), ('n3', '-n3'), ('pmin', '-pmin'), ('pmax', '-pmax'), ('t1', '-t1'), ('t2', '-t2'),
                  ('skew', '-skew'), ('lq', '-lq'), ('uq', '-uq'), ('llq', '-llq'), ('luq', '-luq'), ('lt', '-lt')):
        if k in v:
            a += [fl, str(v[k])]
    if v.get('twopl'):
        a.append('-twopl')
    return a


def groups_of(tokens):
    """group structure of a tie-aware token list: list of lists of entry tokens, or None"""
    groups, cur = [], None
    for t in tokens:
        o, c = t.startswith('('), t.endswith(')')
        core = t.strip('()')
        if t.count('(') + t.count(')') > 1 or (o and c):
            return None
        if o:
            if cur is not None:
                return None
            cur = [core]
        elif c:
            if cur is None:
                return None
            cur.append(core)
            groups.append(cur)
            cur = None
        elif cur is not None:
            cur.append(core)
        else:
            groups.append([core])
    return None if cur is not None else groups


def file_claims(text, v, rec_lengths, tokens):
    """claims for one generated file; rec_lengths: the values drawn for the n1 list lengths"""
    mp = v['mp']
    n1 = v['n1']
    n2 = v['n1'] if mp == 'sm' else v['n2']
    n3 = v.get('n3')
    twopl = bool(v.get('twopl'))
    t1, t2 = v.get('t1', 0.0), v.get('t2', 0.0)
    lq, uq = v.get('lq', 0), (n2 if mp == 'sm' else v['uq'])
    cl = []
    T = lambda tok: tokens[tok] if tok in tokens else z3.IntVal(int(tok))
    lines = text.split('\n')
    hdr = lines[0].split()
    cl.append(('header counts', hdr == ([str(n1), str(n2)] + ([str(n3)] if mp == 'spa' else []))))
    nsec = n2 + (n3 if mp == 'spa' else 0)
    if len(lines) < 1 + n1 + nsec + 1:
        return cl + [('enough lines', False)]
    for i in range(1, n1 + 1):
        head, _, rest = lines[i].partition(':')
        toks = rest.split()
        g = groups_of(toks)
        ok = head.strip() == str(i) and g is not None
        cl.append(('first-side line %d numbered and well-formed' % i, ok))
        if not ok:
            continue
        ents = [T(t) for grp in g for t in grp]
        cl.append(('first-side list %d: entries in range' % i, z3.And([z3.And(e >= 1, e <= n2) for e in ents]) if ents else z3.BoolVal(False)))
        cl.append(('first-side list %d: entries distinct' % i, z3.Distinct(ents) if len(ents) > 1 else z3.BoolVal(True)))
        cl.append(('first-side list %d: length is the drawn length' % i, z3.IntVal(len(ents)) == rec_lengths[i - 1]))
        if t1 == 0.0:
            cl.append(('first-side list %d: no ties for probability 0' % i, all(len(grp) == 1 for grp in g)))
        if t1 == 1.0:
            cl.append(('first-side list %d: one whole-list tie for probability 1' % i, len(g) == 1))
    plq, puq = even_spread(n2, lq), even_spread(n2, uq)
    if mp == 'spa':
        per = even_spread(n3, n2)
        plec = [k + 1 for k in range(n3) for _ in range(per[k])]
    for j in range(1, n2 + 1):
        parts = [x.strip() for x in lines[n1 + j].split(':')]
        want = [str(j), str(plq[j - 1]), str(puq[j - 1])] + ([str(plec[j - 1])] if mp == 'spa' else [])
        cl.append(('second-side line %d: number, evenly spread lower/upper quota%s' % (j, ', lecturer' if mp == 'spa' else ''), parts[:len(want)] == want))
        if mp != 'spa':
            rest = parts[3] if len(parts) > 3 else ''
            if twopl:
                g = groups_of(rest.split())
                cl.append(('second-side list %d well-formed' % j, g is not None))
                if g is not None:
                    if t2 == 0.0:
                        cl.append(('second-side list %d: no ties for probability 0' % j, all(len(x) == 1 for x in g)))
                    if t2 == 1.0:
                        cl.append(('second-side list %d: one whole-list tie for probability 1' % j, len(g) <= 1))
            else:
                cl.append(('second-side line %d: no preference list when one-sided' % j, rest == '' and len(parts) <= 4))
        else:
            cl.append(('project line %d has exactly four columns' % j, len(parts) == 4))
    if mp == 'spa':
        llq, lt, luq = even_spread(n3, v.get('llq', 0)), even_spread(n3, v.get('lt', 0)), even_spread(n3, v['luq'])
        for k in range(1, n3 + 1):
            parts = [x.strip() for x in lines[n1 + n2 + k].split(':')]
            want = [str(k), str(llq[k - 1]), str(lt[k - 1]), str(luq[k - 1])]
            cl.append(('lecturer line %d: number, evenly spread lower quota, target, upper quota' % k, parts[:4] == want))
            rest = parts[4] if len(parts) > 4 else ''
            if twopl:
                g = groups_of(rest.split())
                cl.append(('lecturer list %d well-formed' % k, g is not None))
                if g is not None:
                    if t2 == 0.0:
                        cl.append(('lecturer list %d: no ties for probability 0' % k, all(len(x) == 1 for x in g)))
                    if t2 == 1.0:
                        cl.append(('lecturer list %d: one whole-list tie for probability 1' % k, len(g) <= 1))
            else:
                cl.append(('lecturer line %d: no preference list when one-sided' % k, rest == ''))
    # parameter block
    tail = lines[1 + n1 + nsec:]
    block = ['', 'instance generation parameters', 'number_of_agents_type_1: %d' % n1, 'number_of_agents_type_2: %d' % n2]
    if mp == 'spa':
        block.append('number_of_agents_type_3: %d' % n3)
    block += ['min_pref_list_length: %d' % v['pmin'], 'max_pref_list_length: %d' % v['pmax'], 'ties_probability_1: %s' % float(t1),
              'ties_probability_2: %s' % float(t2), 'sum_agent2_lower_quotas: %d' % lq, 'sum_agent2_upper_quotas: %d' % uq,
              'skew_for_agent_1: %s' % float(v.get('skew', 1.0))]
    if mp == 'spa':
        block += ['sum_agent3_lower_quotas: %d' % v.get('llq', 0), 'sum_agent3_targets: %s' % _num(v.get('lt')), 'sum_agent3_upper_quotas: %d' % v['luq']]
    # the block must be separated by a blank line, carry the heading and every documented key with the requested
    # value (values compared numerically: 0 and 0.0 are the same parameter value)
    got = [l for l in tail if l != '']
    want = [l for l in block if l != '']
    okb = tail[0] == '' and len(got) == len(want) and got[0] == want[0]
    if okb:
        for a, b in zip(got[1:], want[1:]):
            ka, _, va = a.partition(': ')
            kb, _, vb = b.partition(': ')
            try:
                okb = okb and ka == kb and float(va) == float(vb)
            except ValueError:
                okb = False
    cl.append(('parameter block', okb))
    return cl


def _num(x):
    return '0.0' if x is None else str(x)


def run_task(task):
    res = {'obligations': 0, 'discharged': 0, 'unknown': 0, 'cex': [], 'queries': 0, 'solver_time': 0.0,
           'paths': 0, 'nontrivial': 0, 'controls': {}}
    ns = repo.load('real')
    if task['kind'] == 'quotas':
        return quotas_task(task, res, ns)
    if task['kind'] == 'plec':
        return plec_task(task, res, ns)
    if task['kind'] == 'fp':
        return fp_task(task, res)
    v = task['v']
    g = ns.gshared

    def body():
        e = S.engine()
        rec, restore = rngstub.install(g)
        tmp = tempfile.mkdtemp(prefix='vf_c08_')
        try:
            out = os.path.join(tmp, 'gen', 'instances')
            with contextlib.redirect_stderr(io.StringIO()):
                ns.generator.Generator(argv_of(v, out))
            files = {}
            for fn in sorted(os.listdir(out)):
                with open(os.path.join(out, fn)) as f:
                    files[fn] = f.read()
            e.notes['rec'] = rec
            return files
        finally:
            restore()
            shutil.rmtree(tmp, ignore_errors=True)

    E = S.Engine(max_paths=60000, timeout=2400)
    if task.get('split') is None:
        paths = E.explore(body)
    else:
        E0 = S.Engine(max_paths=60000, timeout=1200)
        fr = E0.frontier(body, 8)
        if E0.stats.get('aborted'):
            raise RuntimeError('%d paths dropped by an infeasible stub assumption' % E0.stats['aborted'])
        mine = [p for i, p in enumerate(fr) if i % NSPLIT == task['split']]
        paths = E.explore(body, prefixes=mine) if mine else []
    res['paths'] = len(paths)
    if E.stats.get('aborted'):
        raise RuntimeError('%d paths dropped by an infeasible stub assumption' % E.stats['aborted'])
    res['queries'] += E.stats['solver_queries']
    res['solver_time'] += E.stats['solver_time']
    tags = {}
    n1 = v['n1']
    for p in paths:
        if p.exc is not None:
            res['obligations'] += 1
            tag = 'gen/exception/%s' % type(p.exc).__name__
            tags[tag] = tags.get(tag, 0) + 1
            if tags[tag] <= 1:
                res['cex'].append({'tag': tag, 'what': 'accepted generator run raised %r' % (p.exc,), 'data': {'v': v}})
            continue
        files, rec = p.result, p.notes['rec']
        claims = [('exactly the files 0.txt .. k-1.txt', sorted(files) == sorted('%d.txt' % i for i in range(v['numinst'])))]
        if not rec.randint_calls and not rec.choice_calls and not rec.tie_calls and not rec.shuffles:
            # the code reached the random sources by a route the stubs do not cover: nothing can be claimed for all seeds
            res['obligations'] += 1
            res['unknown'] += 1
            res['controls']['rng_stubs_bypassed'] = res['controls'].get('rng_stubs_bypassed', 0) + 1
            continue
        claims.append(('list lengths drawn from exactly [pmin, pmax]',
                       len(rec.randint_calls) == n1 * v['numinst'] and all((lo, hi) == (v['pmin'], v['pmax'] + 1) for lo, hi, _ in rec.randint_calls)))
        claims.append(('sampling without replacement with a weight vector over the whole population',
                       not rec.violations and all(len(c['pop']) == (v['n1'] if v['mp'] == 'sm' else v['n2']) for c in rec.choice_calls)))
        if len(rec.randint_calls) == n1 * v['numinst']:
            for k in range(v['numinst']):
                fn = '%d.txt' % k
                if fn in files:
                    lens = [S.term_of(x[2]) for x in rec.randint_calls[k * n1:(k + 1) * n1]]
                    claims += [('file %d: %s' % (k, a), b) for a, b in file_claims(files[fn], v, lens, p.tokens)]
        if any(len(c['out']) >= 2 for c in rec.choice_calls):
            res['nontrivial'] += 1
        zs = [c for _, c in claims if not isinstance(c, bool)]
        if all(c is not False for _, c in claims):
            r, _m = S.holds(p.pc, z3.And(zs) if zs else z3.BoolVal(True))
            res['queries'] += 1
            if r == 'unsat':
                res['obligations'] += len(claims)
                res['discharged'] += len(claims)
                continue
        for name, c in claims:
            res['obligations'] += 1
            if isinstance(c, bool):
                ok = c
            else:
                r, _m = S.holds(p.pc, c)
                res['queries'] += 1
                if r == 'unknown':
                    res['unknown'] += 1
                    continue
                ok = r == 'unsat'
            if ok:
                res['discharged'] += 1
            else:
                tag = 'gen/%s' % re.sub(r'\d+', 'N', name.split(': ', 1)[-1])
                tags[tag] = tags.get(tag, 0) + 1
                if tags[tag] <= 1:
                    res['cex'].append({'tag': tag, 'what': 'generated file is not well-formed: %s' % name, 'data': {'v': v, 'claim': name}})
    res['sample'] = {'v': v, 'paths': len(paths), 'file': (list(paths[0].result.values())[0] if paths and paths[0].exc is None and paths[0].result else None)}
    return res


def quotas_task(task, res, ns):
    n = task['n']
    g = ns.gshared

    def body():
        e = S.engine()
        rec, restore = rngstub.install(g)
        try:
            total = e.fresh_int('total')
            e.assume(total >= 0)
            e.notes['total'] = total.t
            return g.create_quotas(n, total)
        finally:
            restore()
    paths = S.Engine(max_paths=64).explore(body)
    res['paths'] = len(paths)
    for p in paths:
        res['obligations'] += 1
        if p.exc is not None:
            res['cex'].append({'tag': 'quotas/exception', 'what': 'create_quotas raised %r' % (p.exc,), 'data': {'n': n, 'total': 7}})
            continue
        q = [S.term_of(x) for x in p.result]
        total = p.notes['total']
        claim = z3.And([z3.BoolVal(len(q) == n), z3.Sum(q) == total] + [q[i] >= q[i + 1] for i in range(len(q) - 1)] +
                       ([q[0] - q[-1] <= 1] if q else []) + [x >= 0 for x in q])
        r, m = S.holds(p.pc, claim)
        res['queries'] += 1
        res['nontrivial'] += 1
        if r == 'unsat':
            res['discharged'] += 1
        elif r == 'unknown':
            res['unknown'] += 1
        else:
            res['cex'].append({'tag': 'quotas/uneven', 'what': 'create_quotas(%d, total) is not an even spread summing to the total' % n,
                               'data': {'n': n, 'total': m.eval(total, model_completion=True).as_long()}})
    res['sample'] = {'kind': 'quotas', 'n': n, 'result': str(paths[0].result) if paths and paths[0].exc is None else None}
    return res


def plec_task(task, res, ns):
    gen = ns.gspa.Generator_spa()
    for n2 in range(1, task['N'] + 1):
        for n3 in range(1, task['N'] + 1):
            res['obligations'] += 1
            try:
                got = list(gen.create_project_lecturers(n2, n3))
            except Exception as e:  # noqa
                got = repr(e)
            per = even_spread(n3, n2)
            want = [k + 1 for k in range(n3) for _ in range(per[k])]
            if got == want:
                res['discharged'] += 1
            else:
                res['cex'].append({'tag': 'plec/uneven', 'what': 'create_project_lecturers(%d, %d) = %s, expected %s' % (n2, n3, got, want),
                                   'data': {'n2': n2, 'n3': n3}})
    res['nontrivial'] = 1
    res['sample'] = {'kind': 'plec', 'N': task['N']}
    return res


def fp_task(task, res):
    """int(a / n) == a // n for binary64 division, 0 <= a < 2^20, constant n (QF_FP)"""
    n = task['n']
    a = z3.BitVec('a', 32)
    f64 = z3.Float64()
    fa = z3.fpSignedToFP(z3.RNE(), a, f64)
    fn = z3.FPVal(float(n), f64)
    q = z3.fpRoundToIntegral(z3.RTZ(), z3.fpDiv(z3.RNE(), fa, fn))
    qi = z3.fpToSBV(z3.RTZ(), q, z3.BitVecSort(32))
    s = z3.Solver()
    s.set('timeout', 240000)
    s.add(z3.ULT(a, z3.BitVecVal(1 << 20, 32)))
    s.add(qi != z3.UDiv(a, z3.BitVecVal(n, 32)))
    res['obligations'] += 1
    import time
    t0 = time.time()
    r = s.check()
    res['solver_time'] += time.time() - t0
    res['queries'] += 1
    res['nontrivial'] = 1
    if r == z3.unsat:
        res['discharged'] += 1
    elif r == z3.unknown:
        res['unknown'] += 1
    else:
        res['cex'].append({'tag': 'fp/lemma', 'what': 'int(a / %d) != a // %d in binary64' % (n, n), 'data': {'n': n, 'a': s.model()[a].as_long(), 'kind': 'fp'}})
    res['sample'] = {'kind': 'fp', 'n': n, 'result': str(r), 'seconds': round(time.time() - t0, 1)}
    return res


def replay(cex):
    d = cex['data']
    ns = repo.load('real')
    if d.get('kind') == 'fp':
        a, n = d['a'], d['n']
        return int(a / n) != a // n, 'int(%d / %d) = %d, %d // %d = %d' % (a, n, int(a / n), a, n, a // n)
    if 'n2' in d:
        got = list(ns.gspa.Generator_spa().create_project_lecturers(d['n2'], d['n3']))
        per = even_spread(d['n3'], d['n2'])
        want = [k + 1 for k in range(d['n3']) for _ in range(per[k])]
        return got != want, 'create_project_lecturers(%d, %d) = %s, even assignment is %s' % (d['n2'], d['n3'], got, want)
    if 'total' in d:
        try:
            got = list(ns.gshared.create_quotas(d['n'], d['total']))
        except Exception as e:  # noqa
            return True, 'create_quotas(%d, %d) raised %r' % (d['n'], d['total'], e)
        want = even_spread(d['n'], d['total'])
        return got != want, 'create_quotas(%d, %d) = %s, even spread is %s' % (d['n'], d['total'], got, want)
    v = d['v']
    import numpy as np
    notes = []
    for seed in range(12):
        tmp = tempfile.mkdtemp(prefix='vf_c08r_')
        try:
            out = os.path.join(tmp, 'gen', 'instances')
            np.random.seed(seed)
            random.seed(seed)
            lens = []
            orig = np.random.randint

            def ri(lo, hi=None, *a, **k):
                r = orig(lo, hi, *a, **k)
                lens.append((lo, hi, int(r)))
                return r
            np.random.randint = ri
            try:
                with contextlib.redirect_stderr(io.StringIO()):
                    ns.generator.Generator(argv_of(v, out))
            except Exception as e:  # noqa
                return True, 'argv %s seed %d: raised %r' % (argv_of(v, 'OUT'), seed, e)
            finally:
                np.random.randint = orig
            names = sorted(os.listdir(out))
            if names != sorted('%d.txt' % i for i in range(v['numinst'])):
                return True, 'argv %s: files written %s' % (argv_of(v, 'OUT'), names)
            if any((lo, hi) != (v['pmin'], v['pmax'] + 1) for lo, hi, _ in lens):
                return True, 'argv %s: list lengths drawn from %s, requested [%d, %d]' % (argv_of(v, 'OUT'), sorted({(lo, hi - 1) for lo, hi, _ in lens}), v['pmin'], v['pmax'])
            for k, fn in enumerate(names):
                text = open(os.path.join(out, fn)).read()
                ll = [z3.IntVal(x[2]) for x in lens[k * v['n1']:(k + 1) * v['n1']]]
                for name, c in file_claims(text, v, ll, {}):
                    ok = c if isinstance(c, bool) else (S.holds([], c)[0] == 'unsat')
                    if not ok:
                        return True, 'argv %s seed %d, file %s:\n%s\nnot well-formed: %s' % (argv_of(v, 'OUT'), seed, fn, text.split('\n\n')[0], name)
        finally:
            shutil.rmtree(tmp, ignore_errors=True)
    return False, 'argv %s: 12 seeded real runs produced well-formed files' % argv_of(v, 'OUT')


def describe_task(t):
    return t


def task_cost(t):
    if t['kind'] == 'gen':
        v = t['v']
        return 100 * (v['n1'] * v.get('n2', v['n1'])) ** 2 * v['numinst'] ** 3 * (3 if v.get('twopl') else 1)
    return 50 if t['kind'] == 'fp' else 1


if __name__ == '__main__':
    raise SystemExit(harness.main(__import__('sys').modules[__name__]))
