"""C18 - result getters are read-only and re-solving is reproducible."""
import random
import re

import z3

from .. import harness, repo, lpchecks, shapes, e2, spec, lp, replay as rp
from .. import pulpshim as shim
from .. import sym as S

ID = 'C18'
LEVEL = 'other'
ENGINE = 'pathsym frame step + E2 system equality (z3)'
FUNCTIONS = ['solver.Solver.solve/get_debug/get_results/get_results_short/get_results_long', 'model.Model.get_debug/get_results/_pairs_string and all statistic helpers',
             'lp_solver.LP_Solver.__init__/run (second solve on the same Model)', 'model.Model.pulp_setup / Pair.pulp_setup (fresh variables per solve)',
             'brute_force_solver.Brute_force_solver.run/get_results (getters after -bf, concrete)']
EXPLANATION = (
    '(a) Frame step: from an arbitrary post-solve state (the real solve ran against the PuLP stand-in, which answered with SYMBOLIC values within bounds, a '
    'status that is Optimal or not, symbolic quotas/targets, symbolic clock, time limit unset or symbolic; PuLP\'s "a term multiplied by zero leaves the '
    'variable out of the problem, its value stays None" rule is modelled with a fork) every getter is called twice in a task-specific order under symbolic '
    'execution; each call must return, the two texts of a getter must be identical (placeholder tokens compared by z3 term identity), and a deep canonical '
    'snapshot of the Solver/Model/Pair/variable object graph is compared after every call - unchanged state means any sequence of getters returns the same '
    'texts (a state change with no visible effect is only counted, since e.g. a cache does not violate the property; the call order g1 g2 g3 g4 g4 g3 g2 g1 contains every ordered pair of getters). (b) Re-solve: solve() is called a second time on the same Solver; the sequence of recorded integer programs must equal the first one up to the '
    'renaming of the fresh value symbols (same variables, bounds, constraints, objectives), hence same feasible sets, same optimal values, and C01 carries over. '
    'Counterexamples are replayed on real PuLP + CBC.')
ASSUMPTIONS = ['getter texts are compared after the run header/timing lines are produced from the same (unchanged) clock attributes',
               'back end contract as in C01/C02; values of variables outside the problem stay None (PuLP behaviour)']
LEVEL_TEXT = ('Inductive frame argument checked by path-exhaustive symbolic execution per shape/option set: every getter leaves the canonical state snapshot '
              'unchanged and repeats its text; re-solve yields a syntactically identical sequence of integer programs.')
LEVEL_NOTE = 'Trusted: z3, vf/sym.py, PuLP stand-in incl. its zero-coefficient rule, the snapshot function here. Outside: shapes beyond the bound; CBC nondeterminism among equal optima (C01/C03 cover what any optimum satisfies).'
TECHNIQUE = 'symbolic execution of the real getters from a symbolic post-solve state: z3-checked text equality and unchanged canonical object-graph snapshot (frame step); syntactic equality of the integer programs of a second solve'
RULE = 'one task per (shape, flags, criteria, status, time-limit mode, getter order); each feasible path is a case; non-trivial = path on which a matching is printed'
EXHAUSTIVE = {}
GETTERS = ['get_results', 'get_results_short', 'get_results_long', 'get_debug']


def BOUNDS(tier):
    return ('shapes: %s corner/random shapes with ns<=3; flags: {}, -pc, -twopl, -twopl -stab; criteria: none, one single, one pair; status Optimal / Infeasible / '
            'Not Solved; time limit unset / symbolic; getter sequences: each getter twice in a seeded order (8 calls), then a second solve' % ('8' if tier == 'quick' else '24'))


def tasks(tier, seed):
    rng = random.Random(seed + 1818)
    shs = [s for s in shapes.shape_set(tier, seed, quick_n=6, thorough_n=60) if s.ns <= 3 and sum(len(g) for gs in s.prefs for g in gs) <= 6]
    shs = shs[:8] if tier == 'quick' else shs[:24]
    small = lambda I_: I_.np <= 2 and I_.nl <= 2
    out = []
    seqs = [[], [('maxsize', [])], [('mincost', [2, 1])], [('lsb', []), ('mincost', [])], [('gre', [])], [('mincostlsb', [1, 2])], [('minsqcost', [1, 1]), ('gen', [])]]
    for i, I in enumerate(shs):
        fl = [[]] + ([['pc']] if small(I) or i < 2 else []) + ([['twopl'], ['twopl', 'stab']] if I.lprefs is not None else [])
        for flags in fl:
            for status in ('Optimal', 'Infeasible', 'Not Solved'):
                for limit in (False, True):
                    if status != 'Optimal' and (i + len(flags)) % 2:
                        continue
                    rot = rng.randrange(4)
                    g4 = GETTERS[rot:] + GETTERS[:rot]
                    order = g4 + g4[::-1]      # every ordered pair of getters occurs
                    out.append({'shape': lpchecks.shape_data(I), 'flags': flags, 'seq': seqs[(i + len(flags)) % len(seqs)],
                                'status': status, 'limit': limit, 'order': order})
    # getters after a brute-force solve (concrete numerics, real code)
    for i, I in enumerate(shs[:6]):
        order = GETTERS + GETTERS[::-1]
        out.append({'kind': 'bf', 'shape': lpchecks.shape_data(I), 'flags': ['twopl'] if I.lprefs is not None else [], 'seq': [],
                    'status': 'bf', 'limit': False, 'order': order})
    return out


def hook_for(status):
    def factory(run):
        def hook(prob, snap, solver):
            e = S.engine()
            pt = lp.Point(snap, 'w%d' % len(run.snaps))
            for var in snap.variables:
                pres = snap.presence[id(var)]
                if pres is not True and not bool(S.SymBool(pres)):
                    var.varValue = None      # not part of the problem PuLP sees
                    continue
                var.varValue = S.SymInt(pt.v[id(var)])
                lo, hi, _ = snap.bounds[id(var)]
                if lo is not None:
                    e.assume(var.varValue >= lo)
                if hi is not None:
                    e.assume(var.varValue <= hi)
            snap.point = pt
            run.snaps.append(snap)
            return {'Optimal': 1, 'Infeasible': -1, 'Not Solved': 0}[status]
        return hook
    return factory


def canon(obj, depth=0, seen=None):
    """canonical, comparable rendering of an object graph"""
    if seen is None:
        seen = {}
    if isinstance(obj, (S.SymInt, S.SymReal, S.SymBool)):
        return 'sym:' + z3.simplify(S.term_of(obj)).sexpr()
    if obj is None or isinstance(obj, (bool, int, float, str)):
        return repr(obj)
    if isinstance(obj, (list, tuple)):
        return [canon(o, depth + 1, seen) for o in obj]
    if isinstance(obj, dict):
        return sorted((repr(k), canon(v, depth + 1, seen)) for k, v in obj.items())
    if id(obj) in seen:
        return 'ref:%d' % seen[id(obj)]
    seen[id(obj)] = len(seen)
    if isinstance(obj, shim.LpVariable):
        return ('var', obj.name, canon(obj.lowBound), canon(obj.upBound), obj.cat, canon(obj.varValue))
    if isinstance(obj, shim.LpAffineExpression):
        return ('expr', sorted((v.name, canon(c)) for v, c in obj.terms.items()), canon(obj.constant), getattr(obj, 'sense', None))
    if isinstance(obj, shim.LpProblem):
        return ('prob', obj.status, [(n, canon(c, depth + 1, seen)) for n, c in obj.constraints.items()],
                canon(obj.objective, depth + 1, seen) if obj.objective is not None else None)
    if isinstance(obj, (e2.SymClock.Instant,)):
        return 'instant:' + z3.simplify(S.term_of(obj.t)).sexpr()
    if hasattr(obj, '__dict__') and depth < 12:
        if type(obj).__name__ in ('ArgumentParser', 'module', 'function', '_Solver'):
            return type(obj).__name__
        return (type(obj).__name__, sorted((k, canon(v, depth + 1, seen)) for k, v in vars(obj).items()))
    return type(obj).__name__


def canon_snap(snap, base):
    ren = lambda s_: re.sub(r'w(\d+)!', lambda m: 'w%d!' % (int(m.group(1)) - base), s_)
    def t(c):
        c = lp.zt(c)
        return ren(z3.simplify(c).sexpr()) if z3.is_expr(c) else repr(c)
    cons = []
    for name, c in snap.constraints:
        cons.append((re.sub(r'^_C\d+$', '_C', name), sorted((v.name, t(k)) for v, k in c.terms.items()), t(c.constant), c.sense))
    obj = None if snap.objective is None else (sorted((v.name, t(k)) for v, k in snap.objective.terms.items()), t(snap.objective.constant))
    vs = sorted((v.name, t(snap.bounds[id(v)][0]) if snap.bounds[id(v)][0] is not None else None,
                 t(snap.bounds[id(v)][1]) if snap.bounds[id(v)][1] is not None else None, snap.bounds[id(v)][2]) for v in snap.variables)
    return (cons, obj, vs, snap.sense)


def texts_equal(a, b, tokens, pc):
    """texts with placeholder tokens: equal iff same skeleton and token terms provably equal"""
    if a == b:
        return True
    pa, pb = re.split(r'(@S\d+@)', a), re.split(r'(@S\d+@)', b)
    if len(pa) != len(pb):
        return False
    for x, y in zip(pa, pb):
        if x == y:
            continue
        if x in tokens and y in tokens:
            if S.holds(pc, tokens[x] == tokens[y])[0] != 'unsat':
                return False
        else:
            return False
    return True


def run_task(task):
    res = {'obligations': 0, 'discharged': 0, 'unknown': 0, 'cex': [], 'queries': 0, 'solver_time': 0.0,
           'paths': 0, 'nontrivial': 0, 'controls': {}}
    I = lpchecks.shape_from(task['shape'])
    flags = set(task['flags'])
    seq = [(c, list(a)) for c, a in task['seq']]
    if task.get('kind') == 'bf':
        res['obligations'] += 1
        bad, detail = replay({'data': dict(task)})
        res['nontrivial'] = 1
        if bad:
            m = re.search(r'(\w+) raised (\w+)', detail)
            res['cex'].append({'tag': 'bf-getters/%s' % ('/'.join(m.groups()) if m else 'differs'),
                               'what': 'getters after a brute-force solve: ' + detail.split('\n')[-1], 'data': dict(task)})
        else:
            res['discharged'] += 1
        res['sample'] = {'task': describe_task(task)}
        return res

    def make_body(conc):
      def body():
          e = S.engine()
          try:
              tl = None
              if task['limit']:
                  tl = e.fresh_real('limit')
                  e.assume(tl > 0)
              run = e2.run_e2(I, flags, seq, hook_factory=hook_for(task['status']), time_limit=tl, clock=True, numerics=conc)
              e.notes['run'] = run
              K = len(run.snaps)
              e.notes['x_terms'] = {(pr.studentID, pr.projectID): (S.term_of(pr.lp_var.varValue) if pr.lp_var.varValue is not None else z3.IntVal(0))
                                    for row in run.solver.model.pairs for pr in row}
              log = []
              e.notes['log'] = log
              state = canon(run.solver)
              for g in task['order']:
                  try:
                      txt = getattr(run.solver, g)()
                  except Exception as ex:  # noqa
                      log.append((g, 'raised', '%s: %s' % (type(ex).__name__, ex), lpchecks.repo_site(ex)))
                      continue
                  after = canon(run.solver)
                  log.append((g, 'ok', txt, after == state))
                  state = after
              # second solve
              first = [canon_snap(s_, 0) for s_ in run.snaps[:K]]
              run.solver.solve(msg=False, timeLimit=tl)
              second = [canon_snap(s_, K) for s_ in run.snaps[K:]]
              e.notes['resolve'] = (first, second)
              e.notes['status2'] = run.solver.model.pulp_status
              return True
          finally:
              pass
      return body

    E, paths = e2.explore_or_degrade(lambda: S.Engine(max_paths=30000, timeout=300), make_body, I, res['controls'])
    res['paths'] = len(paths)
    res['queries'] += E.stats['solver_queries']
    res['solver_time'] += E.stats['solver_time']
    tags = {}

    def cex(tag, what, p, extra=None):
        tags[tag] = tags.get(tag, 0) + 1
        if tags[tag] > 2:
            return
        data = dict(task)
        run = p.notes.get('run')
        if run is not None:
            s = z3.Solver()
            s.add(*p.pc)
            if s.check() == z3.sat:
                m = s.model()
                data['inst'] = rp.inst_to_data(rp.concretize_inst(run.inst, m))
                xt = p.notes.get('x_terms')
                if xt and task['status'] == 'Optimal':
                    data['x'] = [[s_, p_, int(rp.mval(m, t))] for (s_, p_), t in xt.items()]
        if extra:
            data.update(extra)
        res['cex'].append({'tag': tag, 'what': what, 'data': data})

    for p in paths:
        if p.exc is not None:
            res['obligations'] += 1
            cex('exception/%s/%s' % (type(p.exc).__name__, lpchecks.repo_site(p.exc)), 'solve/re-solve raised %r' % (p.exc,), p)
            continue
        log = p.notes['log']
        by = {}
        printed = False
        for ent in log:
            res['obligations'] += 1
            g = ent[0]
            if ent[1] == 'raised':
                cex('getter-raises/%s/%s' % (g, ent[3]), '%s raised %s' % (g, ent[2]), p, {'getter': g})
                continue
            res['obligations'] += 1
            if not ent[3]:
                # a state change alone is not a violation of the property (e.g. a cache); it only
                # weakens the inductive argument to the literal call sequences explored here
                res['controls']['state_changed_without_visible_effect'] = res['controls'].get('state_changed_without_visible_effect', 0) + 1
            res['discharged'] += 1
            if 'matching:' in ent[2]:
                printed = True
            if g in by:
                if texts_equal(by[g], ent[2], p.tokens, p.pc):
                    res['discharged'] += 1
                else:
                    cex('text-differs/%s' % g, 'second call of %s returned a different text' % g, p, {'getter': g})
            else:
                by[g] = ent[2]
                res['discharged'] += 1
        res['nontrivial'] += 1 if printed else 0
        first, second = p.notes['resolve']
        res['obligations'] += 1
        if first == second and p.notes['status2'] == task['status']:
            res['discharged'] += 1
        else:
            diff = 'number of solves %d vs %d' % (len(first), len(second))
            for k, (a, b) in enumerate(zip(first, second)):
                if a != b:
                    diff = 'problem of solve #%d differs' % (k + 1)
                    break
            cex('resolve-differs', 'second solve() built a different sequence of integer programs (%s)' % diff, p)
    res['sample'] = {'task': describe_task(task), 'paths': len(paths)}
    return res


def replay(cex):
    if cex.get('tag') == 'resolve-differs':
        # the symbolic finding is about the code, not about one instance: look for a
        # concrete instance (pool of shapes x seeded numerics) on which it shows
        rng = random.Random(5)
        d0 = cex['data']
        pool = [lpchecks.shape_from(d0['shape'])] + [s for s in shapes.corner_shapes() if s.ns <= 3]
        last = (False, 'no instance of the replay pool exhibits a different re-solve result')
        for I0 in pool:
            if ('twopl' in d0['flags']) and I0.lprefs is None:
                continue
            for trial in range(16):
                puq = [rng.choice([1, 1, 2]) for _ in range(I0.np)]
                plq = [rng.choice([0, 1]) if trial % 2 else 0 for _ in range(I0.np)]
                plq = [min(a, b) for a, b in zip(plq, puq)]
                if I0.na == 3:
                    lt = [rng.choice([0, 1, 2]) for _ in range(I0.nl)]
                    luq = [max(t, rng.choice([1, 2, 3])) for t in lt]
                    llq = [rng.choice([0, 1]) if trial % 2 else 0 for _ in range(I0.nl)]
                    llq = [min(a, b) for a, b in zip(llq, lt)]
                    I = I0.with_numerics(plq, puq, llq, lt, luq)
                else:
                    I = I0.with_numerics(plq, puq, list(plq), list(puq), list(puq))
                Ichk = I if 'twopl' in d0['flags'] else spec.Inst(I.na, I.ns, I.np, I.nl, I.prefs, I.plec, None, I.plq, I.puq, I.llq, I.lt, I.luq)
                if not spec.feasible_set(Ichk, 'pc' in d0['flags'], 'stab' in d0['flags']):
                    continue
                seq = [(c_, list(a_)) for c_, a_ in d0['seq']]
                if not lpchecks.admissible(I, seq):
                    continue
                for fl in ([d0['flags']] + ([['twopl']] if I0.lprefs is not None and d0['flags'] != ['twopl'] else [])):
                    d1 = dict(d0, inst=rp.inst_to_data(I), flags=fl)
                    bad, detail = _replay_one(d1)
                    if bad:
                        return True, detail
        return last
    return _replay_one(cex['data'])


def _replay_one(d):
    I = rp.inst_from_data(d['inst']) if 'inst' in d else None
    if I is None:
        I = lpchecks.shape_from(d['shape'])
        I = I.with_numerics([0] * I.np, [I.ns] * I.np, [0] * I.nl, [1] * I.nl, [I.ns] * I.nl)
    import os, shutil, tempfile
    ns = repo.load('real')
    tmp = tempfile.mkdtemp(prefix='vf_c18_')
    notes, bad = [], False
    try:
        path = os.path.join(tmp, 'i.txt')
        with open(path, 'w') as f:
            f.write(spec.inst_to_text(I))
        argv = ['-f', path, '-na', str(I.na)] + ['-' + f for f in d['flags']] + e2.opts_to_argv([(c, list(a)) for c, a in d['seq']])
        if d.get('kind') == 'bf':
            argv.append('-bf')
        s = ns.solver.Solver(argv)
        s.solve()
        if d.get('x') and d.get('kind') != 'bf':
            # post-solve state with the counterexample's values (what the back end could have reported)
            pin = {(a, b): v for a, b, v in d['x']}
            for row in s.model.pairs:
                for pr in row:
                    pr.lp_var.varValue = float(pin.get((pr.studentID, pr.projectID), 0))
            s.model.pulp_status = 'Optimal'
        seen = {}
        stats = []
        for rnd in range(2):
            for g in d['order']:
                try:
                    t = getattr(s, g)()
                except Exception as e:  # noqa
                    bad = True
                    notes.append('%s raised %s: %s' % (g, type(e).__name__, e))
                    continue
                if g in seen and seen[g] != t:
                    bad = True
                    notes.append('%s returned a different text on a later call' % g)
                seen.setdefault(g, t)
            pr = rp.parse_results(s.get_results_short() if d.get('kind') != 'bf' else s.get_results())
            stats.append((pr['status'], pr['size'], pr['cost'], pr['profile'], pr['sum_lec_abs_diff'], pr['cost_sq']))
            if rnd == 0:
                seen = {}
                s.solve()
        # criteria values must agree between the two solves
        Id = I if 'twopl' in d['flags'] else spec.Inst(I.na, I.ns, I.np, I.nl, I.prefs, I.plec, None, I.plq, I.puq, I.llq, I.lt, I.luq)
        if stats[0][0] != stats[1][0]:
            bad = True
            notes.append('status changed on re-solve: %s -> %s' % (stats[0][0], stats[1][0]))
        else:
            keys = []
            for st in (0, 1):
                pr = rp.parse_results(s.get_results_short()) if st == 1 else None
            notes.append('statistics first/second solve: %s / %s' % (stats[0], stats[1]))
            seq = [(c, list(a)) for c, a in d['seq']]
            if seq and stats[0][0] == 'Optimal':
                # compare the documented criterion values of both reported matchings
                vals = []
                for sv in (stats[0], stats[1]):
                    vals.append(sv)
                if _crit_values(Id, seq, stats[0]) != _crit_values(Id, seq, stats[1]):
                    bad = True
                    notes.append('criterion values differ between the two solves')
    except Exception as e:  # noqa
        return True, 'argv %s: raised %r' % (d['flags'], e)
    finally:
        shutil.rmtree(tmp, ignore_errors=True)
    return bad, 'instance:\n%sargv %s; getter order %s\n%s' % (spec.inst_to_text(I, trailer=False), argv[2:], d['order'], '\n'.join(notes))


def _crit_values(I, seq, st):
    status, size, cost, prof, sumdev = st[:5]
    out = []
    for c, a in seq:
        if c in ('maxsize', 'minsize'):
            out.append(size)
        elif c == 'mincost':
            y = a[0] if a else 1
            z = a[1] if len(a) > 1 else 0
            out.append(y * cost[0] + z * cost[1])
        elif c == 'minsqcost':
            y = a[0] if a else 1
            z = a[1] if len(a) > 1 else 0
            out.append(y * st[5][0] + z * st[5][1])
        elif c in ('gen', 'gre'):
            out.append(tuple(prof))
        elif c == 'lsb':
            out.append(sumdev)
        elif c == 'mincostlsb':
            y = a[0] if a else 1
            z = a[1] if len(a) > 1 else 1
            out.append(y * cost[0] + z * sumdev)
    return out


def describe_task(t):
    return {k: t[k] for k in ('shape', 'flags', 'seq', 'status', 'limit', 'order')}


def task_cost(t):
    c = 1
    for gs in t['shape']['prefs']:
        c *= (1 + sum(len(g) for g in gs))
    return c * (4 if t['status'] == 'Optimal' else 1) * (2 if 'pc' in t['flags'] else 1)


if __name__ == '__main__':
    raise SystemExit(harness.main(__import__('sys').modules[__name__]))
