"""C11 - printed statistics and listings describe the printed matching."""
import random
import re

import z3

from .. import harness, repo, lpchecks, shapes, e2, spec, lp, replay as rp
from .. import pulpshim as shim
from .. import sym as S
from ..spec import Z, P

ID = 'C11'
LEVEL = 'other'
ENGINE = 'pathsym + E2 (z3)'
FUNCTIONS = ['solver.Solver.get_results/get_results_short/get_results_long', 'model.Model.get_results',
             'model.Model._get_pair_assignments/_get_matching_string/_get_matching_size/_get_cost/_get_cost_sq/_get_degree/_get_profile/_get_profile_string',
             'model.Model._get_max_lec_abs_diff/_get_sum_lec_abs_diff/_get_lec_abs_diffs',
             'model.Model._get_detailed_student_info/_get_detailed_project_info/_get_detailed_lecturer_info']
EXPLANATION = (
    'After a real (E2) Solver()+solve() on a file with symbolic quotas/targets, the back-end stand-in reports Optimal with SYMBOLIC variable values '
    '(0/1, at most one per student). The real get_results_short and get_results_long are then executed symbolically (they fork on each value\'s truthiness and '
    'on the sign of load - target); both texts are read by an independent reader that understands placeholder tokens. Per path z3 proves under the path '
    'condition: the matching line names exactly the pairs whose variable is 1; size, cost pair, squared-cost pair, degree, profile, max and total load '
    'deviation equal the specification measures of (instance denoted by the file, matching line); in the long format every student, project and lecturer '
    'appears exactly once with the implied assignees, occupancy, capacity and target terms. Short and long are produced from the same state (also checks that '
    'the second call agrees with the first). With -stab the printed stability_correct value must equal "the printed matching has no blocking pair" '
    '(the values are arbitrary 0/1 vectors, so both verdicts occur).')
ASSUMPTIONS = ['reported values are 0/1 with at most one project per student (guaranteed for real runs by C01)',
               'wall clock replaced by a non-decreasing symbolic clock; no time limit']
LEVEL_TEXT = ('Path-exhaustive symbolic execution of the real result formatting per shape with symbolic values, quotas and targets; every printed number is '
              'proved (z3) equal to the measure recomputed from the file and the printed matching.')
LEVEL_NOTE = 'Trusted: z3, vf/sym.py, the measures in vf/spec.py, the independent text reader here. Outside: shapes beyond the bound (one 10-project shape included for multi-digit ids).'
TECHNIQUE = 'symbolic execution of Model.get_results (short and long) with symbolic variable values and targets; z3 proves each printed statistic equals the spec measure of the printed matching'
RULE = 'one task per (shape, flag set); each feasible path (a matching x sign pattern of load-target) is a case; non-trivial = path with at least one assigned student'
EXHAUSTIVE = {}
NUM = r'(-?\d+|@S\d+@)'


def BOUNDS(tier):
    return ('shapes: corner set + one 10-project shape + %s; flags: {}, -pc, -twopl, -twopl -pc, -twopl -stab (small shapes%s); all 0/1 value vectors with at most one project per student; '
            'targets/quotas symbolic' % (('10 seeded random ns<=3', '') if tier == 'quick' else ('80 seeded random ns<=4', ' and all ns<=3')))


def wide_shape():
    return shapes.mk(3, 2, 10, 2, [[[10], [1]], [[2], [10]]], [1, 1, 2, 2, 1, 2, 1, 2, 1, 2], [[[1], [2]], [[2, 1]]])


def tasks(tier, seed):
    shs = shapes.shape_set(tier, seed, quick_n=10, thorough_n=60)
    shs = [s for s in shs if s.ns <= 3 or (tier == 'thorough' and sum(len(g) for gs in s.prefs for g in gs) <= 7)]
    shs.append(wide_shape())
    # ties of four entries on both sides (ranks read wrongly change cost, degree and profile)
    shs += [s for s in shapes.corner_shapes() if s.ns == 4 and s.np == 4 and any(len(g) == 4 for gs in s.prefs for g in gs)]
    out = []
    for I in shs:
        fl = [[], ['pc']] + ([['twopl'], ['twopl', 'pc']] if I.lprefs is not None else [])
        if I.lprefs is not None and (I.ns <= 3 if tier == 'thorough' else sum(len(g) for gs in I.prefs for g in gs) <= 4):
            fl.append(['twopl', 'stab'])
        for flags in fl:
            out.append({'shape': lpchecks.shape_data(I), 'flags': flags})
    # with criteria: objective and load-balancing variables exist and carry arbitrary values within bounds; the
    # printed figures must still be recomputed from the matching, not read from those variables
    small = [s for s in shs if sum(len(g) for gs in s.prefs for g in gs) <= 4 and s.nl <= 2]
    for i, I in enumerate(small[:6] if tier == 'quick' else small[:20]):
        seq = [[('lmb', [])], [('lsb', []), ('maxsize', [])], [('mincostlsb', [1, 1])], [('maxsize', []), ('mincost', [])]][i % 4]
        out.append({'shape': lpchecks.shape_data(I), 'flags': ['twopl'] if I.lprefs is not None else [], 'seq': seq})
    return out


def values_hook(run):
    def hook(prob, snap, solver):
        e = S.engine()
        pt = lp.Point(snap, 'w%d' % len(run.snaps))
        for var in snap.variables:
            var.varValue = S.SymInt(pt.v[id(var)])
            lo, hi, _ = snap.bounds[id(var)]
            if lo is not None:
                e.assume(var.varValue >= lo)
            if hi is not None:
                e.assume(var.varValue <= hi)
        snap.point = pt
        run.snaps.append(snap)
        return shim.LpStatusOptimal
    return hook


class Reader:
    """independent reader of result texts; numbers may be placeholder tokens"""

    def __init__(self, tokens):
        self.tokens = tokens

    def num(self, s):
        s = s.strip()
        if s in self.tokens:
            return self.tokens[s]
        return z3.IntVal(int(s))

    def parse(self, text):
        r = {}
        def one(pat):
            m = re.search(pat, text, re.M)
            return m
        m = one(r'^matching: (.*)$')
        r['matching'] = [int(t) for t in m.group(1).split()] if m else None
        for key in ('size', 'degree', 'max_lec_abs_diff', 'sum_lec_abs_diff'):
            m = one(r'^%s: %s$' % (key, NUM))
            r[key] = self.num(m.group(1)) if m else None
        for key in ('cost', 'cost_sq'):
            m = one(r'^%s: \(%s, %s\)$' % (key, NUM, NUM))
            r[key] = (self.num(m.group(1)), self.num(m.group(2))) if m else None
        m = one(r'^profile: < (.*)>$')
        r['profile'] = [self.num(t) for t in m.group(1).split()] if m else None
        m = one(r'^pulp_status: (.*)$')
        r['status'] = m.group(1) if m else None
        m = one(r'^stability_correct: (\w+)$')
        r['stability_correct'] = m.group(1) if m else None
        return r

    def section(self, text, title, next_titles):
        i = text.find(title + '\n')
        if i < 0:
            return None
        body = text[i + len(title) + 1:]
        for t in next_titles:
            j = body.find(t)
            if j >= 0:
                body = body[:j]
        return [l for l in body.split('\n') if l.strip() and not l.startswith('#')]


def claims_for(J, x, text, tokens, long_format, pcond, stab=False):
    """list of (name, python bool or z3 claim)"""
    rd = Reader(tokens)
    r = rd.parse(text)
    cl = []
    if r['matching'] is None or len(r['matching']) != J.ns:
        return [('matching line present with one number per student', False)]
    ml = r['matching']
    for s in range(1, J.ns + 1):
        ps = [p for (s2, p, _) in J.pairs() if s2 == s]
        cl.append(('matching line: student %d' % s, z3.And(
            [(x[(s, p)] == 1) == z3.BoolVal(ml[s - 1] == p) for p in ps] + [z3.BoolVal(ml[s - 1] == 0 or ml[s - 1] in ps)])))
    # measures recomputed from the printed matching line and the file
    xm = spec.x_from_matching_line(J, ml)
    if xm is None:
        return cl + [('matching line names acceptable projects', False)]
    A = Z
    def same(name, printed, want):
        if printed is None:
            cl.append((name + ' printed', False))
        else:
            cl.append((name, printed == (want if z3.is_expr(want) else z3.IntVal(want))))
    if stab:
        # the printed verdict must be the truth about the PRINTED matching (C06 through the real get_results)
        xz0 = {k: z3.IntVal(v) for k, v in xm.items()}
        st = spec.stable(J, xz0, Z)
        if r['stability_correct'] not in ('True', 'False'):
            cl.append(('stability_correct printed', False))
        else:
            cl.append(('stability_correct equals "printed matching has no blocking pair"', st if r['stability_correct'] == 'True' else z3.Not(st)))
    same('size', r['size'], spec.size(J, xm, P))
    cs, cll = spec.cost(J, xm, P)
    if r['cost'] is None:
        cl.append(('cost printed', False))
    else:
        same('cost (students)', r['cost'][0], cs)
        same('cost (lecturers)', r['cost'][1], cll)
    cs2, cl2 = spec.cost(J, xm, P, sq=True)
    if r['cost_sq'] is None:
        cl.append(('cost_sq printed', False))
    else:
        same('cost_sq (students)', r['cost_sq'][0], cs2)
        same('cost_sq (lecturers)', r['cost_sq'][1], cl2)
    same('degree', r['degree'], spec.degree(J, xm, P))
    prof = spec.profile(J, xm, P)
    if r['profile'] is None or len(r['profile']) != len(prof):
        cl.append(('profile has one entry per rank', False))
    else:
        for k, (a, b) in enumerate(zip(r['profile'], prof)):
            same('profile[%d]' % (k + 1), a, b)
    xz = {k: z3.IntVal(v) for k, v in xm.items()}
    same('max_lec_abs_diff', r['max_lec_abs_diff'], spec.maxdev(J, xz, Z))
    same('sum_lec_abs_diff', r['sum_lec_abs_diff'], spec.sumdev(J, xz, Z))
    if long_format:
        st = rd.section(text, 'Student_assignments:', ['Project_assignments:'])
        pr = rd.section(text, 'Project_assignments:', ['Lecturer_assignments:'])
        le = rd.section(text, 'Lecturer_assignments:', [])
        ok = st is not None and len(st) == J.ns
        if ok:
            for s in range(1, J.ns + 1):
                want = ('s_%d: p_%d (l_%d)' % (s, ml[s - 1], J.lec(ml[s - 1]))) if ml[s - 1] else 's_%d no assignment' % s
                ok = ok and st[s - 1].strip() == want
        cl.append(('long: every student once with its project and lecturer', bool(ok)))
        ok = pr is not None and len(pr) == J.np
        claims_q = []
        if ok:
            for j in range(1, J.np + 1):
                m = re.match(r'^p_%d \(l_%d\): (.*?)\s+%s/%s$' % (j, J.lec(j), NUM, NUM), pr[j - 1])
                if not m:
                    ok = False
                    break
                studs = [s for s in range(1, J.ns + 1) if ml[s - 1] == j]
                body = m.group(1).strip()
                want = ' '.join('s_%d' % s for s in studs) if studs else 'no assignment'
                ok = ok and body == want
                claims_q.append(rd.num(m.group(2)) == len(studs))
                claims_q.append(rd.num(m.group(3)) == (J.puq[j - 1] if z3.is_expr(J.puq[j - 1]) else z3.IntVal(J.puq[j - 1])))
        cl.append(('long: every project once with its assignees', bool(ok)))
        if ok:
            cl.append(('long: project occupancy/capacity figures', z3.And(claims_q)))
        ok = le is not None and len(le) == J.nl
        claims_q = []
        if ok:
            for k in range(1, J.nl + 1):
                m = re.match(r'^l_%d: (.*?)\s+%s/%s \(%s\)$' % (k, NUM, NUM, NUM), le[k - 1])
                if not m:
                    ok = False
                    break
                mine = [(s, ml[s - 1]) for s in range(1, J.ns + 1) if ml[s - 1] and J.lec(ml[s - 1]) == k]
                body = m.group(1).strip()
                want = ' '.join('s_%d (p_%d)' % sp for sp in mine) if mine else 'no assignment'
                ok = ok and body == want
                claims_q.append(rd.num(m.group(2)) == len(mine))
                claims_q.append(rd.num(m.group(3)) == J.luq[k - 1])
                claims_q.append(rd.num(m.group(4)) == J.lt[k - 1])
        cl.append(('long: every lecturer once with its assignees', bool(ok)))
        if ok:
            cl.append(('long: lecturer occupancy/capacity/target figures', z3.And(claims_q)))
    return cl


def run_task(task):
    res = {'obligations': 0, 'discharged': 0, 'unknown': 0, 'cex': [], 'queries': 0, 'solver_time': 0.0,
           'paths': 0, 'nontrivial': 0, 'controls': {}}
    I = lpchecks.shape_from(task['shape'])
    flags = set(task['flags'])

    def make_body(conc):
      def body():
          e = S.engine()
          numerics = conc
          if task.get('seq') and conc is None:
              # load-balancing runs: quotas / targets in 0..3 so that code converting a variable value to a
              # Python int enumerates finitely many values
              J0, dom0, free0 = e2.sym_numerics(I)
              numerics = (J0, dom0 + [v <= 3 for v in free0], free0)
          run = e2.run_e2(I, flags, [(c_, list(a_)) for c_, a_ in task.get('seq', [])], hook_factory=values_hook, clock=True,
                          numerics=numerics)
          m = run.solver.model
          x = {}
          for row in m.pairs:
              ts = []
              for pr in row:
                  v = pr.lp_var.varValue
                  t = S.term_of(v) if v is not None else z3.IntVal(0)
                  x[(pr.studentID, pr.projectID)] = t
                  ts.append(t)
              if ts:
                  e.assume(z3.Sum(ts) <= 1)
          e.notes['run'] = run
          e.notes['x'] = x
          t1 = run.solver.get_results_short()
          t2 = run.solver.get_results_long()
          t3 = run.solver.get_results()
          return t1, t2, t3
      return body

    E, paths = e2.explore_or_degrade(lambda: S.Engine(max_paths=40000, timeout=300 if len(task.get('seq', [])) == 0 else 420),
                                     make_body, I, res['controls'])
    res['paths'] = len(paths)
    res['queries'] += E.stats['solver_queries']
    res['solver_time'] += E.stats['solver_time']
    tags = {}
    for p in paths:
        run = p.notes.get('run')
        if p.exc is not None:
            res['obligations'] += 1
            tag = 'exception/%s/%s' % (type(p.exc).__name__, lpchecks.repo_site(p.exc))
            tags[tag] = tags.get(tag, 0) + 1
            if tags[tag] <= 2:
                data = dict(task)
                if run is not None:
                    s = z3.Solver()
                    s.add(*p.pc)
                    if s.check() == z3.sat:
                        data.update(model_data(run, p.notes['x'], s.model(), flags))
                res['cex'].append({'tag': tag, 'what': 'result getter raised %r' % (p.exc,), 'data': data})
            continue
        J = run.inst
        if 'twopl' not in flags and J.lprefs is not None:
            J = spec.Inst(J.na, J.ns, J.np, J.nl, J.prefs, J.plec, None, J.plq, J.puq, J.llq, J.lt, J.luq)
        x = p.notes['x']
        t1, t2, t3 = p.result
        allc = [('short: ' + a, b) for a, b in claims_for(J, x, t1, p.tokens, False, p.pc, 'stab' in flags)]
        allc += [('long: ' + a, b) for a, b in claims_for(J, x, t2, p.tokens, True, p.pc, 'stab' in flags)]
        allc += [('default getter equals short', t3 == t1)]
        res['nontrivial'] += 1
        # one query for the conjunction; individual queries only when it is refuted
        if all(c is True or not isinstance(c, bool) for _, c in allc):
            zs = [c for _, c in allc if not isinstance(c, bool)]
            r, _m = S.holds(p.pc, z3.And(zs) if zs else z3.BoolVal(True))
            res['queries'] += 1
            if r == 'unsat':
                res['obligations'] += len(allc)
                res['discharged'] += len(allc)
                continue
        for name, c in allc:
            res['obligations'] += 1
            if isinstance(c, bool):
                ok, m = c, None
                if not ok:
                    s = z3.Solver()
                    s.add(*p.pc)
                    m = s.model() if s.check() == z3.sat else None
            else:
                r, m = S.holds(p.pc, c)
                res['queries'] += 1
                if r == 'unknown':
                    res['unknown'] += 1
                    continue
                ok = (r == 'unsat')
            if ok:
                res['discharged'] += 1
            else:
                tag = 'text/%s' % re.sub(r'[\[\d\]]+', '', name.split(': ', 1)[1] if ': ' in name else name)
                tags[tag] = tags.get(tag, 0) + 1
                if tags[tag] <= 2 and m is not None:
                    data = dict(task)
                    data.update(model_data(run, x, m, flags))
                    res['cex'].append({'tag': tag, 'what': 'printed results disagree with the printed matching: ' + name, 'data': data})
    res['sample'] = {'task': dict(task), 'paths': len(paths),
                     'short_text_tail': (paths[0].result[0][-300:] if paths and paths[0].exc is None else None)}
    return res


def model_data(run, x, m, flags):
    C = rp.concretize_inst(run.inst, m)
    return {'inst': rp.inst_to_data(C), 'x': [[s, p, int(rp.mval(m, v))] for (s, p), v in x.items()]}


def replay(cex):
    d = cex['data']
    if 'inst' not in d:
        return False, 'no concrete instance'
    I = rp.inst_from_data(d['inst'])
    flags = set(d['flags'])
    # make the concrete instance admit the matching: real CBC run with the matching pinned
    pin = {(s, p): v for s, p, v in d['x']}
    # widen quotas so that the pinned matching is feasible (printing does not depend on feasibility)
    J = I.with_numerics([0] * I.np, [max(q, I.ns) for q in I.puq], [0] * I.nl, I.lt if I.na == 3 else [max(q, I.ns) for q in I.puq],
                        [max(q, I.ns) for q in I.luq])
    Jd = J if 'twopl' in flags else spec.Inst(J.na, J.ns, J.np, J.nl, J.prefs, J.plec, None, J.plq, J.puq, J.llq, J.lt, J.luq)
    notes = []
    bad = False
    if d.get('seq'):
        # a finding about figures taken from solver variables instead of the matching is about the code, not about
        # one instance: look for a concrete instance on which real CBC leaves such a variable away from the
        # recomputed value (pool of shapes x seeded quotas/targets)
        import random as _r
        rng = _r.Random(11)
        pool = [lpchecks.shape_from(d['shape'])] + [s for s in shapes.corner_shapes() if s.ns <= 3] + \
               [shapes.random_shape(rng, 3, 3, 2, 3, False) for _ in range(10)]
        seqs = [[(c_, list(a_)) for c_, a_ in d['seq']], [('lmb', [])], [('maxsize', []), ('lmb', [])], [('lmb', []), ('mincost', [])]]
        for I0 in pool:
            for trial in range(4):
                puq = [rng.choice([1, 2, 3]) for _ in range(I0.np)]
                if I0.na == 3:
                    lt = [rng.choice([0, 1, 2, 3]) for _ in range(I0.nl)]
                    luq = [max(t, rng.choice([1, 2, 3])) for t in lt]
                    I1 = I0.with_numerics([0] * I0.np, puq, [0] * I0.nl, lt, luq)
                else:
                    I1 = I0.with_numerics([0] * I0.np, puq, [0] * I0.np, list(puq), list(puq))
                fl = set(f_ for f_ in flags if f_ != 'twopl' or I0.lprefs is not None)
                I1d = I1 if 'twopl' in fl else spec.Inst(I1.na, I1.ns, I1.np, I1.nl, I1.prefs, I1.plec, None, I1.plq, I1.puq, I1.llq, I1.lt, I1.luq)
                for sq in seqs:
                    if not lpchecks.admissible(I1, sq):
                        continue
                    out = rp.real_solve(I1, fl, e2.opts_to_argv(sq), getter='get_results_long')
                    if out['exc']:
                        return True, 'instance:\n%s\nargv %s: raised %s' % (spec.inst_to_text(I1, trailer=False), e2.opts_to_argv(sq), out['exc'])
                    pr = out['parsed']
                    if pr['matching'] is None:
                        continue
                    xm = spec.x_from_matching_line(I1d, pr['matching'])
                    want = {'size': spec.size(I1d, xm, P), 'cost': tuple(spec.cost(I1d, xm, P)), 'degree': spec.degree(I1d, xm, P),
                            'profile': spec.profile(I1d, xm, P), 'max_lec_abs_diff': spec.maxdev(I1d, xm, P), 'sum_lec_abs_diff': spec.sumdev(I1d, xm, P)}
                    wrong = {k: (pr[k], v) for k, v in want.items() if pr[k] != v}
                    if wrong:
                        return True, 'instance:\n%s\nargv %s %s: matching %s, printed vs recomputed: %s' % (
                            spec.inst_to_text(I1, trailer=False), sorted(fl), e2.opts_to_argv(sq), pr['matching'], wrong)
    if 'stab' in flags:
        # post-solve state with the counterexample's values forced (no feasibility needed for printing)
        import os, shutil, tempfile
        ns = repo.load('real')
        tmp = tempfile.mkdtemp(prefix='vf_c11r_')
        try:
            path = os.path.join(tmp, 'i.txt')
            with open(path, 'w') as f:
                f.write(spec.inst_to_text(I))
            s = ns.solver.Solver(['-f', path, '-na', str(I.na)] + ['-' + f_ for f_ in sorted(flags)])
            s.solve()
            for row in s.model.pairs:
                for pr in row:
                    pr.lp_var.varValue = float(pin.get((pr.studentID, pr.projectID), 0))
            s.model.pulp_status = 'Optimal'
            for getter in ('get_results_short', 'get_results_long'):
                try:
                    prs = rp.parse_results(getattr(s, getter)())
                except Exception as e:  # noqa
                    return True, 'getter raised %r' % (e,)
                Is = I
                xm = spec.x_from_matching_line(Is, prs['matching'])
                want = spec.stable(Is, xm, P)
                if prs['stability_correct'] != str(want):
                    bad = True
                    notes.append('%s: matching %s printed stability_correct: %s, blocking-pair test says %s' % (getter, prs['matching'], prs['stability_correct'], want))
        finally:
            shutil.rmtree(tmp, ignore_errors=True)
        if bad:
            return True, 'instance:\n%s\nflags %s values %s\n%s' % (spec.inst_to_text(I, trailer=False), sorted(flags), sorted(k for k, v in pin.items() if v), '\n'.join(notes))
    for getter in ('get_results_short', 'get_results_long'):
        out = rp.real_solve(J, flags, e2.opts_to_argv([(c_, list(a_)) for c_, a_ in d.get('seq', [])]), pin_x=pin, getter=getter,
                            extra_calls=['get_results_long', 'get_results_short'])
        if out['exc']:
            return True, 'real run raised ' + out['exc']
        texts = [out['text']] + out.get('extra', [])
        for text in texts:
            pr = rp.parse_results(text)
            if pr['matching'] is None:
                notes.append('no matching printed (%s)' % pr['status'])
                continue
            xm = spec.x_from_matching_line(Jd, pr['matching'])
            want = {'size': spec.size(Jd, xm, P), 'cost': tuple(spec.cost(Jd, xm, P)), 'cost_sq': tuple(spec.cost(Jd, xm, P, sq=True)),
                    'degree': spec.degree(Jd, xm, P), 'profile': spec.profile(Jd, xm, P),
                    'max_lec_abs_diff': spec.maxdev(Jd, xm, P), 'sum_lec_abs_diff': spec.sumdev(Jd, xm, P)}
            for k, v in want.items():
                if pr[k] != v:
                    bad = True
                    notes.append('%s: matching %s, printed %s = %s, recomputed %s' % (getter, pr['matching'], k, pr[k], v))
            if 'Student_assignments:' in text:
                claims = claims_for(Jd, {k: z3.IntVal(v) for k, v in xm.items()}, text, {}, True, [])
                for name, c in claims:
                    okc = c if isinstance(c, bool) else (S.holds([], c)[0] == 'unsat')
                    if not okc:
                        bad = True
                        notes.append('%s: %s' % (getter, name))
    return bad, 'instance:\n%s\nflags %s pinned matching %s\n%s' % (spec.inst_to_text(J, trailer=False), sorted(flags),
                                                                 sorted(k for k, v in pin.items() if v), '\n'.join(dict.fromkeys(notes)) or 'all printed figures correct')


def describe_task(t):
    return t


def task_cost(t):
    c = 1
    for gs in t['shape']['prefs']:
        c *= (1 + sum(len(g) for g in gs))
    return c * (2 if 'stab' in t['flags'] else 1)


if __name__ == '__main__':
    raise SystemExit(harness.main(__import__('sys').modules[__name__]))
