"""C16 - criteria run in position order; invalid solver option sets are refused."""
import contextlib
import io
import itertools
import random

import z3

from .. import harness, repo, lpchecks, shapes, e2
from .. import sym as S

ID = 'C16'
LEVEL = 'other'
ENGINE = 'pathsym (symbolic positions through the real argparse front end) + E2 for the downstream order'
FUNCTIONS = ['options_parser.Options_parser.parse/_create_arg_parser/_get_and_check_orderings/_get_ordered_optimisations/'
             '_get_optimisation_tuples/_stability_requirements_check', 'solver.Solver.__init__',
             'lp_solver.LP_Solver.run_optimisations (info lines / solve order)']
EXPLANATION = (
    'Symbolic execution of the real Options_parser.parse (argparse runs for real; the shadowed int in options_parser maps placeholder '
    'tokens to z3 integers), for every presence subset of the nine criteria up to the bound, in several flag permutations, with every '
    'position number and every extra argument an UNBOUNDED symbolic integer. Per path z3 proves under the path condition: all positions in '
    '1..9 and pairwise distinct <=> accepted; when accepted, optimisation_options lists exactly the present criteria in strictly increasing '
    'position with their own extra arguments (term identity); otherwise SystemExit(2). Through the real Solver(argv) with a non-existent '
    'instance file: refusal (SystemExit 2) happens before the file is opened, acceptance reaches the open (FileNotFoundError); -stab without '
    '-twopl is refused. Downstream, E2 runs with gapped/shuffled command lines check that the "- optimisation:" info lines and the recorded '
    'solve sequence follow position order, and (optimality obligation of C03 on command lines with explicit extras, including zeros) that each criterion '
    'runs with exactly the extra arguments it was given.')
ASSUMPTIONS = ['argparse (stdlib) is executed, not modelled', 'list indexing by a symbolic position forks over every feasible value (no silent concretisation)']
LEVEL_TEXT = ('Path-exhaustive symbolic execution of the real option parser with unbounded symbolic positions/extras; per-path claims discharged by z3; '
              'presence subsets bounded (quick <= 2 present, thorough <= 3).')
LEVEL_NOTE = 'Trusted: z3, vf/sym.py. Outside: more than 3 criteria present at once in the symbolic part (covered only by concrete-argv E2 runs).'
TECHNIQUE = 'symbolic execution of Options_parser.parse with symbolic integer positions (z3), accept/refuse and ordering claims proved per path; E2 run for the downstream solve order'
RULE = 'one task per (presence subset, flag permutation, entry point); each feasible path is a case; non-trivial = path condition mentions a position'
EXHAUSTIVE = {}

CRITS = ['maxsize', 'minsize', 'gen', 'gre', 'mincost', 'minsqcost', 'lmb', 'lsb', 'mincostlsb']
NEXTRA = {'gen': 1, 'gre': 1, 'mincost': 2, 'minsqcost': 2, 'mincostlsb': 2}
ENUM = {'maxsize': 'MAXSIZE', 'minsize': 'MINSIZE', 'gen': 'GENEROUS', 'gre': 'GREEDY', 'mincost': 'MINCOST',
        'minsqcost': 'MINSQCOST', 'lmb': 'LOADMAXBAL', 'lsb': 'LOADSUMBAL', 'mincostlsb': 'MINCOSTLSB'}


def BOUNDS(tier):
    return ('presence subsets of the 9 criteria of size 0..%d (all of them; quick additionally 10 sampled subsets of size 3), positions and extras symbolic unbounded integers, 2 flag permutations '
            'per subset, entry points parse() and Solver(); -stab x -twopl; downstream: %d E2 runs with gapped positions'
            % ((2, 60) if tier == 'quick' else (3, 240)))


def tasks(tier, seed):
    rng = random.Random(seed + 1616)
    kmax = 2 if tier == 'quick' else 3
    out = []
    for k in range(0, kmax + 1):
        for sub in itertools.combinations(CRITS, k):
            nex = [rng.randint(0, NEXTRA.get(c, 0)) for c in sub]
            perm = list(range(k))
            out.append({'kind': 'parse', 'present': list(sub), 'nextra': nex, 'perm': perm, 'entry': 'parse'})
            if k >= 2:
                rng.shuffle(perm)
                out.append({'kind': 'parse', 'present': list(sub), 'nextra': [NEXTRA.get(c, 0) for c in sub],
                            'perm': list(reversed(range(k))), 'entry': 'solver' if k == 2 else 'parse'})
            elif k == 1:
                out.append({'kind': 'parse', 'present': list(sub), 'nextra': [NEXTRA.get(c, 0) for c in sub], 'perm': perm, 'entry': 'solver'})
    # the refusals do not depend on the other options: the same obligations with -bf / -pc / -twopl -stab present
    base = [t for t in out if len(t['present']) <= (1 if tier == 'quick' else 2)] + \
           [t for t in out if len(t['present']) == 2 and tier == 'quick'][::4]
    OTHERS = [['-bf'], ['-bf', '-pc'], ['-twopl', '-stab'], ['-pc']]
    for i, t in enumerate(base):
        out.append(dict(t, other=OTHERS[i % len(OTHERS)]))
        if i % 2 == 0:
            out.append(dict(t, other=['-bf'], entry='solver' if t['entry'] == 'parse' else 'parse'))
    if tier == 'quick':
        for sub3 in rng.sample(list(itertools.combinations(CRITS, 3)), 10):
            out.append({'kind': 'parse', 'present': list(sub3), 'nextra': [0, 0, 0], 'perm': [2, 0, 1], 'entry': 'parse'})
    for stab, twopl in itertools.product([False, True], repeat=2):
        out.append({'kind': 'stab', 'stab': stab, 'twopl': twopl})
        out.append({'kind': 'stab', 'stab': stab, 'twopl': twopl, 'other': ['-bf']})
        out.append({'kind': 'stab', 'stab': stab, 'twopl': twopl, 'other': ['-pc', '-maxsize', '1']})
    # extras are honoured downstream: the criterion runs with exactly the given extra arguments (incl. explicit zeros)
    two = [s for s in shapes.corner_shapes() if s.lprefs is not None and s.ns >= 2]
    EX = [[('mincost', [0, 1])], [('minsqcost', [0, 1])], [('mincostlsb', [1, 0])], [('mincostlsb', [0, 1])], [('mincost', [2, 0])],
          [('gre', [1])], [('gen', [2])], [('maxsize', []), ('mincost', [0, 1])],
          # extras belong to their own criterion only: a later cost criterion without extras uses the documented defaults
          [('mincost', [0, 1]), ('minsqcost', [])], [('minsqcost', [0, 2]), ('mincost', [])], [('maxsize', []), ('mincost', [0, 1]), ('minsqcost', [])]]
    for i in range(22 if tier == 'quick' else 88):
        I = two[i % len(two)]
        seq = EX[i % len(EX)]
        if lpchecks.admissible(I, seq):
            out.append({'kind': 'extras', 'prop': ID, 'shape': lpchecks.shape_data(I), 'flags': ['twopl'], 'seq': seq,
                        'argv_seq': lpchecks.gapped_argv(seq, rng), 'forms': ['opt'], 'wf': True})
    # downstream order
    shs = shapes.corner_shapes()
    n = 60 if tier == 'quick' else 240
    for i in range(n):
        I = shs[i % len(shs)]
        k = rng.choice([2, 3, 3, 4])
        seq = [(c, []) for c in rng.sample(CRITS, k)]
        if ('mincost', []) in seq and ('minsqcost', []) in seq and False:
            continue
        flags = rng.choice(lpchecks.flag_sets_for(I))
        out.append({'kind': 'order', 'shape': lpchecks.shape_data(I), 'flags': flags, 'seq': seq,
                    'argv_seq': lpchecks.gapped_argv(seq, rng)})
    return out


INFO = {'maxsize': 'maximising size', 'minsize': 'minimising size', 'gen': 'generous', 'gre': 'greedy',
        'mincost': 'minimising sum of ranks', 'minsqcost': 'minimising sum of square of ranks', 'lmb': 'load max balanced',
        'lsb': 'load sum balanced', 'mincostlsb': 'minimising costs with lecturer load balancing'}
OBJ = {'maxsize': 'obj_maxsize', 'minsize': 'obj_minsize', 'gen': 'obj_generous', 'gre': 'obj_greedy', 'mincost': 'obj_mincost',
       'minsqcost': 'obj_minsqcost', 'lmb': 'lec_max_abs_diff', 'lsb': 'lec_sum_abs_diff', 'mincostlsb': 'obj_mincostlsb'}


def run_task(task):
    res = {'obligations': 0, 'discharged': 0, 'unknown': 0, 'cex': [], 'queries': 0, 'solver_time': 0.0,
           'paths': 0, 'nontrivial': 0, 'controls': {}}
    if task['kind'] == 'order':
        return run_order(task, res)
    if task['kind'] == 'extras':
        return lpchecks.analyse(task)
    ns = repo.load('real')
    ns.options_parser.int = S.sym_int
    if task['kind'] == 'stab':
        argv = ['-f', '/nonexistent/vf_c16.txt', '-na', '2'] + list(task.get('other', [])) + (['-stab'] if task['stab'] else []) + (['-twopl'] if task['twopl'] else [])
        res['obligations'] += 1
        out = concrete_outcome(ns, argv, 'solver')
        expect = 'exit2' if (task['stab'] and not task['twopl']) else 'file'
        if out == expect:
            res['discharged'] += 1
        else:
            res['cex'].append({'tag': 'stab-twopl', 'what': 'stab=%s twopl=%s: outcome %s, expected %s' % (task['stab'], task['twopl'], out, expect),
                               'data': {'argv': argv, 'expect': expect, 'entry': 'solver'}})
        res['nontrivial'] = 1
        res['sample'] = {'argv': argv, 'outcome': out}
        return res
    present, nextra, perm, entry = task['present'], task['nextra'], task['perm'], task['entry']

    def body():
        e = S.engine()
        pos = [e.fresh_int('pos') for _ in present]
        ext = [[e.fresh_int('x') for _ in range(nextra[i])] for i in range(len(present))]
        e.notes['pos'] = [p.t for p in pos]
        e.notes['ext'] = [[x.t for x in xs] for xs in ext]
        argv = ['-f', '/nonexistent/vf_c16.txt', '-na', '3'] + list(task.get('other', []))
        for i in perm:
            argv.append(e2.FLAGS[present[i]])
            argv.append(e.token(pos[i].t))
            argv.extend(e.token(x.t) for x in ext[i])
        e.notes['argv'] = argv
        with contextlib.redirect_stderr(io.StringIO()):
            if entry == 'parse':
                op = ns.options_parser.Options_parser()
                op.parse(argv)
                return ('accepted', op.optimisation_options)
            try:
                ns.solver.Solver(argv)
            except FileNotFoundError:
                return ('file', None)
            return ('constructed', None)

    E = S.Engine(max_paths=20000, timeout=900, enum_cap=32)
    paths = E.explore(body)
    res['paths'] = len(paths)
    res['queries'] += E.stats['solver_queries']
    res['solver_time'] += E.stats['solver_time']
    for p in paths:
        pos, ext = p.notes['pos'], p.notes['ext']
        legal = z3.And([z3.And(q >= 1, q <= 9) for q in pos] + [pos[i] != pos[j] for i in range(len(pos)) for j in range(i + 1, len(pos))])
        claims = []
        if p.exc is not None:
            if isinstance(p.exc, SystemExit) and p.exc.code == 2:
                claims.append(('refused only when illegal', z3.Not(legal)))
            else:
                claims.append(('no exception other than SystemExit(2): %r' % (p.exc,), z3.BoolVal(False)))
        else:
            kind, opts = p.result
            claims.append(('accepted only when legal', legal))
            if kind == 'accepted':
                ok_len = len(opts) == len(present)
                claims.append(('every present criterion listed exactly once', z3.BoolVal(ok_len)))
                if ok_len:
                    idx = []
                    for (opt, extras) in opts:
                        nm = [c for c in present if ENUM[c] == opt.name]
                        idx.append(present.index(nm[0]) if nm else None)
                    good = None not in idx and sorted(idx) == list(range(len(present)))
                    claims.append(('listed criteria are the present ones', z3.BoolVal(good)))
                    if good:
                        for a in range(len(idx) - 1):
                            claims.append(('increasing positions', pos[idx[a]] < pos[idx[a + 1]]))
                        for a, (opt, extras) in enumerate(opts):
                            want = ext[idx[a]]
                            if present[idx[a]] in NEXTRA:
                                same = isinstance(extras, list) and len(extras) == len(want)
                                claims.append(('extras kept with their criterion (count)', z3.BoolVal(bool(same))))
                                if same:
                                    for u, v in zip(extras, want):
                                        claims.append(('extras kept with their criterion (value)', S.term_of(u) == v))
                            else:
                                claims.append(('no extras for plain criterion', z3.BoolVal(extras is None)))
            elif kind == 'constructed':
                claims.append(('Solver() on a missing file must not succeed', z3.BoolVal(False)))
        res['nontrivial'] += 1 if p.pc else 0
        for name, c in claims:
            res['obligations'] += 1
            r, m = S.holds(p.pc, c)
            res['queries'] += 1
            if r == 'unsat':
                res['discharged'] += 1
            elif r == 'unknown':
                res['unknown'] += 1
            else:
                vals = [m.eval(q, model_completion=True).as_long() for q in pos]
                xv = [[m.eval(x, model_completion=True).as_long() for x in xs] for xs in ext]
                argv = ['-f', '/nonexistent/vf_c16.txt', '-na', '3'] + list(task.get('other', []))
                for i in perm:
                    argv += [e2.FLAGS[present[i]], str(vals[i])] + [str(v) for v in xv[i]]
                res['cex'].append({'tag': 'parse/%s' % name.split(':')[0].split(' (')[0], 'what': name,
                                   'data': {'argv': argv, 'present': present, 'pos': vals, 'ext': xv, 'entry': entry}})
    res['sample'] = {'present': present, 'perm': perm, 'entry': entry, 'paths': len(paths),
                     'argv': paths[0].notes.get('argv') if paths else None}
    return res


def concrete_outcome(ns, argv, entry):
    with contextlib.redirect_stderr(io.StringIO()):
        try:
            if entry == 'parse':
                op = ns.options_parser.Options_parser()
                op.parse(argv)
                return ('accepted', [(o.name, x) for o, x in op.optimisation_options])
            ns.solver.Solver(argv)
            return 'constructed'
        except FileNotFoundError:
            return 'file'
        except SystemExit as e:
            return 'exit%s' % e.code
        except Exception as e:  # noqa
            return 'raised %r' % (e,)


def run_order(task, res):
    I = lpchecks.shape_from(task['shape'])
    seq = [(c, list(a)) for c, a in task['seq']]
    # the subject is the order of the solves, not the quotas: when the code under test forks on the symbolic quotas
    # beyond the path budget, concrete well-formed quota vectors are used instead (recorded as degraded_to_concrete)
    res.setdefault('controls', {})
    E, paths = e2.explore_or_degrade(lambda: S.Engine(max_paths=64, timeout=120),
                                     lambda conc: (lambda: e2.run_e2(I, set(task['flags']), seq, argv_seq=task['argv_seq'],
                                                                     numerics=conc)),
                                     I, res['controls'])
    res['paths'] = len(paths)
    for p in paths:
        res['obligations'] += 2
        if p.exc is not None:
            res['cex'].append({'tag': 'order/exception', 'what': 'raised %r' % (p.exc,), 'data': dict(task)})
            continue
        run = p.result
        lines = [l[len('- optimisation: '):] for l in run.solver.solver.info_string.split('\n') if l.startswith('- optimisation: ')]
        exp = [INFO[c] for c, _ in seq]
        ok1 = len(lines) == len(exp) and all(l.startswith(x) for l, x in zip(lines, exp))
        # the solve order itself is verified semantically by C04 (lexicographic optimality in
        # position order); here only: at least one solve per requested criterion
        objs = len(run.snaps)
        ok2 = objs >= len(seq)
        res['discharged'] += int(ok1) + int(ok2)
        if not (ok1 and ok2):
            res['cex'].append({'tag': 'order/%s' % ('info' if not ok1 else 'solves'),
                               'what': 'criteria reported out of position order: info lines %s, %s solves, expected %s' % (lines, objs, [c for c, _ in seq]),
                               'data': dict(task)})
    res['nontrivial'] = 1
    res['sample'] = {'argv': task['argv_seq'], 'expected_order': [c for c, _ in seq]}
    return res


def replay(cex):
    d = cex['data']
    ns = repo.load('real')
    if cex.get('form') == 'opt':
        return lpchecks.replay_cex(cex)
    if 'shape' in d:
        from .. import replay as rp, spec
        I = lpchecks.shape_from(d['shape'])
        I = I.with_numerics([0] * I.np, [I.ns] * I.np, [0] * I.nl, [1] * I.nl, [I.ns] * I.nl)
        out = rp.real_solve(I, set(d['flags']), d['argv_seq'])
        if out['exc']:
            return True, 'argv %s: real run raised %s' % (d['argv_seq'], out['exc'])
        lines = out['parsed']['opt_lines']
        exp = [INFO[c] for c, _ in d['seq']]
        bad = not (len(lines) == len(exp) and all(l.startswith(x) for l, x in zip(lines, exp)))
        return bad, 'argv %s: info lines %s, expected order %s' % (d['argv_seq'], lines, exp)
    argv = d['argv']
    try:
        del ns.options_parser.int
    except AttributeError:
        pass
    out = concrete_outcome(ns, argv, d.get('entry', 'parse'))
    if 'expect' in d:
        return out != d['expect'], 'argv %s -> %s (expected %s)' % (argv, out, d['expect'])
    pos = d['pos']
    legal = all(1 <= q <= 9 for q in pos) and len(set(pos)) == len(pos)
    if d.get('entry') == 'solver':
        exp = 'file' if legal else 'exit2'
        return out != exp, 'argv %s -> %s (expected %s)' % (argv, out, exp)
    if not legal:
        return out != 'exit2', 'argv %s -> %s (expected refusal with exit status 2)' % (argv, out)
    order = sorted(range(len(pos)), key=lambda i: pos[i])
    exp = ('accepted', [(ENUM[d['present'][i]], (d['ext'][i] if d['present'][i] in NEXTRA else None)) for i in order])
    return out != exp, 'argv %s -> %s (expected %s)' % (argv, out, exp)


def describe_task(t):
    return t


def task_cost(t):
    return 9 ** len(t.get('present', [])) if t['kind'] == 'parse' else 50


if __name__ == '__main__':
    raise SystemExit(harness.main(__import__('sys').modules[__name__]))
