"""Recording stand-in for the ``pulp`` module (engine E2).

Implements exactly the PuLP surface the repository uses.  Coefficients,
constants and variable bounds may be SymInt (z3 terms).  ``LpProblem.solve``
snapshots the problem and defers to ``SOLVE_HOOK`` for status and values.
Fidelity against real PuLP is checked on every run by translation validation
(vf/lp.py: compare_with_real).
"""
import sys
import types

from . import sym as S

LpMaximize = -1
LpMinimize = 1
LpConstraintLE = -1
LpConstraintEQ = 0
LpConstraintGE = 1
LpStatusNotSolved = 0
LpStatusOptimal = 1
LpStatusInfeasible = -1
LpStatusUnbounded = -2
LpStatusUndefined = -3
LpStatus = {0: 'Not Solved', 1: 'Optimal', -1: 'Infeasible', -2: 'Unbounded',
            -3: 'Undefined'}
LpContinuous = 'Continuous'
LpInteger = 'Integer'
LpBinary = 'Binary'
FAITHFUL_ZERO = False

_ILLEGAL = str.maketrans('-+[] ->/', '________')


class PulpError(Exception):
    pass


class PulpSolverError(PulpError):
    pass


def _isnum(x):
    return isinstance(x, (int, float, S.SymInt, S.SymReal)) and not isinstance(x, bool) or isinstance(x, bool)


class LpVariable:
    def __init__(self, name, lowBound=None, upBound=None, cat=LpContinuous, e=None):
        self.name = str(name).translate(_ILLEGAL)
        self.lowBound = lowBound
        self.upBound = upBound
        self.cat = cat
        if cat == LpBinary:
            self.lowBound = 0
            self.upBound = 1
            self.cat = LpInteger
        self.varValue = None

    def __hash__(self):
        return id(self)

    def __repr__(self):
        return self.name

    def __neg__(self):
        return LpAffineExpression(self) * -1

    def __add__(self, o): return LpAffineExpression(self) + o
    def __radd__(self, o): return LpAffineExpression(self) + o
    def __sub__(self, o): return LpAffineExpression(self) - o
    def __rsub__(self, o): return o - LpAffineExpression(self)
    def __mul__(self, o): return LpAffineExpression(self) * o
    def __rmul__(self, o): return LpAffineExpression(self) * o
    def __le__(self, o): return LpAffineExpression(self) <= o
    def __ge__(self, o): return LpAffineExpression(self) >= o
    def __eq__(self, o): return LpAffineExpression(self) == o
    def __ne__(self, o): return not (self is o)

    def value(self):
        return self.varValue

    @classmethod
    def dicts(cls, name, indices, lowBound=None, upBound=None, cat=LpContinuous, indexStart=[]):
        # same naming as PuLP 2.9: a tuple of index lists nests; '%' in the name is a format, else '_%s' per level
        if not isinstance(indices, tuple):
            indices = (indices,)
        if '%' not in name:
            name += '_%s' * len(indices)
        index, rest = indices[0], indices[1:]
        d = {}
        for i in index:
            if not rest:
                d[i] = cls(name % tuple(list(indexStart) + [str(i)]), lowBound, upBound, cat)
            else:
                d[i] = cls.dicts(name, rest, lowBound, upBound, cat, list(indexStart) + [i])
        return d

    dict = dicts

    def setInitialValue(self, val, check=True):
        self.varValue = val
        return True

    def bounds(self, low, up):
        self.lowBound, self.upBound = low, up


class LpAffineExpression:
    def __init__(self, e=None, constant=0, name=None):
        self.name = name
        self.terms = {}
        self.constant = constant
        if e is None:
            pass
        elif isinstance(e, LpAffineExpression):
            self.terms = dict(e.terms)
            self.constant = e.constant
        elif isinstance(e, LpVariable):
            self.terms[e] = 1
        elif isinstance(e, dict):
            self.terms = dict(e)
        elif isinstance(e, (list, tuple)) or hasattr(e, '__next__'):
            for v, c in e:          # PuLP also accepts an iterable of (variable, coefficient) pairs
                self._addterm(v, c)
        elif _isnum(e):
            self.constant = e
        else:
            raise TypeError('LpAffineExpression(%r)' % (e,))

    # dict-like bits the repo / harness may touch
    def keys(self): return self.terms.keys()
    def items(self): return self.terms.items()
    def __len__(self): return len(self.terms)
    def __bool__(self): return True

    def copy(self):
        return LpAffineExpression(self)

    def addterm(self, key, value):
        self._addterm(key, value)

    def value(self):
        tot = self.constant
        for v, c in self.terms.items():
            if v.varValue is None:
                return None
            tot = tot + v.varValue * c
        return tot

    def addInPlace(self, other, sign=1):
        if other is None:
            return self
        if isinstance(other, int) and not isinstance(other, bool) and other == 0:
            return self
        if isinstance(other, LpVariable):
            self._addterm(other, sign)
        elif isinstance(other, LpAffineExpression):
            self.constant = self.constant + other.constant * sign
            for v, c in other.terms.items():
                self._addterm(v, c * sign)
        elif isinstance(other, dict):
            for e in other.values():
                self.addInPlace(e, sign)
        elif isinstance(other, (list, tuple)) or (
                hasattr(other, '__iter__') and not _isnum(other)):
            for e in other:
                self.addInPlace(e, sign)
        elif _isnum(other):
            self.constant = self.constant + other * sign
        else:
            raise TypeError('cannot add %r to an expression' % (other,))
        return self

    def _addterm(self, v, c):
        if v in self.terms:
            self.terms[v] = self.terms[v] + c
        else:
            self.terms[v] = c

    def subInPlace(self, other):
        return self.addInPlace(other, -1)

    def __neg__(self):
        return self * -1

    def __pos__(self): return self
    def __add__(self, o): return self.copy().addInPlace(o)
    def __radd__(self, o): return self.copy().addInPlace(o)
    def __iadd__(self, o): return self.addInPlace(o)
    def __sub__(self, o): return self.copy().subInPlace(o)
    def __rsub__(self, o): return (-self).addInPlace(o)
    def __isub__(self, o): return self.subInPlace(o)

    def __mul__(self, o):
        e = LpAffineExpression()
        if isinstance(o, LpVariable):
            o = LpAffineExpression(o)
        if isinstance(o, LpAffineExpression):
            if len(o) and len(self):
                raise TypeError('Non-constant expressions cannot be multiplied')
            if len(o):
                c, src = self.constant, o
            else:
                c, src = o.constant, self
            e.constant = self.constant * o.constant
            for v, x in src.terms.items():
                e.terms[v] = c * x
            return e
        if not _isnum(o):
            raise TypeError('cannot multiply an expression by %r' % (o,))
        # PuLP drops every term when multiplying by zero (the variable then does not
        # enter the constraint at all).  Concrete zero: always; symbolic factor: only in
        # FAITHFUL_ZERO mode, where the comparison forks the path.
        if not S.is_sym(o) and o == 0:
            return e
        e.constant = self.constant * o
        for v, x in self.terms.items():
            e.terms[v] = o * x
        return e

    def __rmul__(self, o):
        return self * o

    def __le__(self, o): return LpConstraint(self - o, LpConstraintLE)
    def __ge__(self, o): return LpConstraint(self - o, LpConstraintGE)
    def __eq__(self, o): return LpConstraint(self - o, LpConstraintEQ)
    __hash__ = None


class LpConstraint(LpAffineExpression):
    def __init__(self, e=None, sense=LpConstraintEQ, name=None, rhs=None):
        LpAffineExpression.__init__(self, e, name=name)
        if rhs is not None:
            self.constant = self.constant - rhs
        self.sense = sense
    __hash__ = None


def lpSum(vector):
    return LpAffineExpression().addInPlace(vector)


def lpDot(v1, v2):
    """dot product of two lists (of numbers / variables / expressions)"""
    if not isinstance(v1, (list, tuple)) and not isinstance(v2, (list, tuple)):
        return v1 * v2
    if not isinstance(v1, (list, tuple)):
        v1 = [v1] * len(v2)
    if not isinstance(v2, (list, tuple)):
        v2 = [v2] * len(v1)
    return lpSum([lpDot(a, b) for a, b in zip(v1, v2)])


def value(x):
    if isinstance(x, (LpVariable, LpAffineExpression)):
        return x.value()
    return x


class _Solver:
    def __init__(self, msg=False, timeLimit=None, threads=None, **kw):
        self.msg, self.timeLimit, self.threads = msg, timeLimit, threads


PULP_CBC_CMD = _Solver


class Snapshot:
    """The problem as handed to solve()."""

    def __init__(self, prob):
        self.constraints = [(n, c) for n, c in prob.constraints.items()]
        obj = prob.objective
        if isinstance(obj, LpVariable):
            obj = LpAffineExpression(obj)
        self.objective = obj
        self.sense = prob.sense
        vs = []
        seen = set()

        def add(v):
            if id(v) not in seen:
                seen.add(id(v))
                vs.append(v)
        if obj is not None:
            for v in obj.terms:
                add(v)
        for _, c in self.constraints:
            for v in c.terms:
                add(v)
        self.variables = vs
        # presence: PuLP only knows variables that have a term; a term with a symbolic
        # coefficient exists iff the coefficient is non-zero.  True, or a z3 condition.
        occ = {}
        exprs = [c for _, c in self.constraints] + ([obj] if obj is not None else [])
        for ex in exprs:
            for v, c in ex.terms.items():
                occ.setdefault(id(v), []).append(c)
        self.presence = {}
        for v in vs:
            cs = occ.get(id(v), [])
            if any(not S.is_sym(c) for c in cs):
                self.presence[id(v)] = True
            else:
                import z3 as _z3
                self.presence[id(v)] = _z3.Or([S.term_of(c) != 0 for c in cs])
        self.bounds = {id(v): (v.lowBound, v.upBound, v.cat) for v in vs}
        self.values = None
        self.status = None


def default_hook(prob, snap, solver):
    raise RuntimeError('no SOLVE_HOOK installed')


SOLVE_HOOK = default_hook
SOLVES = []


class LpProblem:
    def __init__(self, name='NoName', sense=LpMinimize):
        self.name = name
        self.sense = sense
        self.objective = None
        self.constraints = {}
        self.status = LpStatusNotSolved
        self._ncon = 0
        self.solver = None

    def unusedConstraintName(self):
        while True:
            self._ncon += 1
            n = '_C%d' % self._ncon
            if n not in self.constraints:
                return n

    def addConstraint(self, constraint, name=None):
        if not isinstance(constraint, LpConstraint):
            raise TypeError('Can only add LpConstraint objects')
        if name:
            constraint.name = str(name).translate(_ILLEGAL)
        name = constraint.name if constraint.name else self.unusedConstraintName()
        if name in self.constraints:
            raise PulpError('overlapping constraint names: ' + name)
        self.constraints[name] = constraint

    def __iadd__(self, other):
        if isinstance(other, tuple):
            other, name = other
        else:
            name = None
        if other is True:
            return self
        if other is False:
            raise TypeError('A False object cannot be passed as a constraint')
        if isinstance(other, LpConstraint):
            self.addConstraint(other, name)
        elif isinstance(other, LpAffineExpression):
            self.objective = other
            if name is not None:
                self.objective.name = name
        elif isinstance(other, LpVariable) or (
                isinstance(other, (int, float)) and not isinstance(other, bool)):
            self.objective = LpAffineExpression(other)
            self.objective.name = name
        else:
            raise TypeError('Can only add LpConstraintVar, LpConstraint, '
                            'LpAffineExpression or True objects')
        return self

    def variables(self):
        return Snapshot(self).variables

    def setObjective(self, obj):
        if isinstance(obj, LpVariable):
            obj = LpAffineExpression(obj)
        self.objective = obj

    def numVariables(self):
        return len(self.variables())

    def numConstraints(self):
        return len(self.constraints)

    def variablesDict(self):
        return {v.name: v for v in self.variables()}

    def solve(self, solver=None, **kw):
        snap = Snapshot(self)
        names = [v.name for v in snap.variables]
        if len(set(names)) != len(names):
            dup = sorted(n for n in set(names) if names.count(n) > 1)
            raise PulpError('Duplicated names found in variables:\n%s' % dup)
        SOLVES.append(snap)
        status = SOLVE_HOOK(self, snap, solver)
        self.status = status
        snap.status = status
        self.solver = solver
        return status

    def writeLP(self, filename, *a, **kw):
        return None


def install():
    """Make ``import pulp`` / ``from pulp import *`` resolve to this shim."""
    mod = types.ModuleType('pulp')
    me = sys.modules[__name__]
    public = ['LpMaximize', 'LpMinimize', 'LpConstraintLE', 'LpConstraintEQ',
              'LpConstraintGE', 'LpStatus', 'LpStatusNotSolved', 'LpStatusOptimal',
              'LpStatusInfeasible', 'LpStatusUnbounded', 'LpStatusUndefined',
              'LpContinuous', 'LpInteger', 'LpBinary', 'PulpError',
              'PulpSolverError', 'LpVariable', 'LpAffineExpression',
              'LpConstraint', 'lpSum', 'lpDot', 'value', 'PULP_CBC_CMD', 'LpProblem']
    for n in public:
        setattr(mod, n, getattr(me, n))
    inner = types.ModuleType('pulp.pulp')
    for n in public:
        setattr(inner, n, getattr(me, n))
    mod.pulp = inner
    mod.__all__ = public + ['pulp']
    mod.__vf_shim__ = True
    sys.modules['pulp'] = mod
    sys.modules['pulp.pulp'] = inner
    return mod
