"""Integer programs recorded by the shim (or real PuLP problems) as z3 formulas."""
import z3

from . import sym as S
from . import pulpshim as shim


def zt(c):
    """python / symbolic number -> z3 term or python number."""
    if isinstance(c, (S.SymInt, S.SymReal)):
        return z3.simplify(c.t)
    if isinstance(c, bool):
        return int(c)
    return c


def is_concrete(c):
    if isinstance(c, (int, float)):
        return True
    return z3.is_int_value(c) or z3.is_rational_value(c)


def conc(c):
    if isinstance(c, (int, float)):
        return c
    if z3.is_int_value(c):
        return c.as_long()
    return c.numerator_as_long() / c.denominator_as_long()


class Point:
    """An assignment of z3 constants to the variables of a snapshot."""

    def __init__(self, snap, tag, consts=None):
        self.snap = snap
        self.tag = tag
        self.v = {}
        for var in snap.variables:
            if consts is not None and id(var) in consts:
                self.v[id(var)] = consts[id(var)]
            elif var.cat == shim.LpContinuous:
                self.v[id(var)] = z3.Real('%s!%s' % (tag, var.name))
            else:
                self.v[id(var)] = z3.Int('%s!%s' % (tag, var.name))

    def consts(self):
        return list(self.v.values())

    def of(self, var, default=0):
        return self.v.get(id(var), default)


def _is01(snap, var):
    lo, hi, cat = snap.bounds[id(var)]
    return cat == shim.LpInteger and isinstance(lo, int) and isinstance(hi, int) and lo == 0 and hi == 1


def lin(snap, expr, point):
    total = zt(expr.constant)
    for var, coef in expr.terms.items():
        c = zt(coef)
        pv = point.v[id(var)]
        if is_concrete(c):
            cv = conc(c)
            if cv == 0:
                continue
            total = total + cv * pv
        elif _is01(snap, var):
            total = total + z3.If(pv == 1, c, 0)
        else:
            total = total + c * pv
    return total if z3.is_expr(total) else z3.IntVal(total)


def con_formula(snap, c, point):
    e = lin(snap, c, point)
    if c.sense == shim.LpConstraintLE:
        return e <= 0
    if c.sense == shim.LpConstraintGE:
        return e >= 0
    return e == 0


def bounds_formula(snap, point):
    fs = []
    for var in snap.variables:
        lo, hi, _ = snap.bounds[id(var)]
        pv = point.v[id(var)]
        if lo is not None:
            fs.append(pv >= zt(lo))
        if hi is not None:
            fs.append(pv <= zt(hi))
    return fs


def P(snap, point):
    """point satisfies bounds and every constraint of the snapshot."""
    fs = bounds_formula(snap, point)
    for _, c in snap.constraints:
        fs.append(con_formula(snap, c, point))
    return z3.And(fs) if fs else z3.BoolVal(True)


def objective(snap, point):
    """objective in 'maximise' orientation."""
    if snap.objective is None:
        return z3.IntVal(0)
    e = lin(snap, snap.objective, point)
    return e if snap.sense == shim.LpMaximize else -e


def optimal(snap, point, tag):
    """point is an optimal solution of snap:  P(point) and no point does better."""
    other = Point(snap, tag)
    body = z3.Implies(P(snap, other), objective(snap, other) <= objective(snap, point))
    qs = other.consts()
    return z3.And(P(snap, point), z3.ForAll(qs, body) if qs else body)


def optimal_expanded(snap, point, tag, student_vars):
    """Same as optimal(), with the universally quantified matching variables
    expanded over every 'each student takes at most one of its variables'
    assignment (exact when P implies that shape - checked by the caller);
    only auxiliary variables stay quantified."""
    import itertools
    fs = [P(snap, point)]
    present = [[v for v in vs if id(v) in point.v] for vs in student_vars]
    obj_pt = objective(snap, point)
    for n, choice in enumerate(itertools.product(*[[None] + vs for vs in present])):
        consts = {}
        for vs, pick in zip(present, choice):
            for v in vs:
                consts[id(v)] = z3.IntVal(1 if v is pick else 0)
        other = Point(snap, '%s_%d' % (tag, n), consts=consts)
        aux = [c for vid, c in other.v.items() if vid not in consts]
        body = z3.Implies(P(snap, other), objective(snap, other) <= obj_pt)
        fs.append(z3.ForAll(aux, body) if aux else body)
    return z3.And(fs)


def forall(qs, body, qe_ms=3000):
    """ForAll(qs, body), with the quantifier eliminated by z3's qe tactic when
    that finishes within the budget (the result is then quantifier-free)."""
    if not qs:
        return body
    f = z3.ForAll(qs, body)
    if qe_ms:
        g = z3.Goal()
        g.add(f)
        try:
            r = z3.TryFor(z3.Tactic('qe'), qe_ms)(g)
            return z3.And([sg.as_expr() for sg in r]) if len(r) else z3.BoolVal(True)
        except z3.Z3Exception:
            pass
    return f


def infeasible(snap, tag):
    other = Point(snap, tag)
    qs = other.consts()
    body = z3.Not(P(snap, other))
    return z3.ForAll(qs, body) if qs else body


def decide(fs, timeout_ms=60000):
    """('sat', model) | ('unsat', None) | ('unknown', None)"""
    s = z3.Solver()
    s.set('timeout', timeout_ms)
    for f in fs:
        s.add(f)
    r = s.check()
    if r == z3.sat:
        return 'sat', s.model()
    if r == z3.unsat:
        return 'unsat', None
    return 'unknown', None


def decide_cvc5(fs, timeout_s=60):
    """second solver (cvc5 1.0 binary) on the SMT-LIB2 rendering of the same query"""
    import os
    import subprocess
    import tempfile
    s = z3.Solver()
    for f in fs:
        s.add(f)
    text = '(set-logic ALL)\n' + s.to_smt2()
    fd, path = tempfile.mkstemp(suffix='.smt2', prefix='vf_cvc5_')
    try:
        with os.fdopen(fd, 'w') as f:
            f.write(text)
        try:
            out = subprocess.run(['cvc5', '--lang', 'smt2', path], capture_output=True, text=True, timeout=timeout_s)
        except subprocess.TimeoutExpired:
            return 'unknown'
        ans = out.stdout.strip().split('\n')[0] if out.stdout.strip() else ''
        if '(error' in out.stdout or '(error' in out.stderr:
            return 'unknown'
        return ans if ans in ('sat', 'unsat') else 'unknown'
    finally:
        os.unlink(path)
