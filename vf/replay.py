"""Replay of solver counterexamples against the real build (real PuLP + CBC)."""
import os
import re
import shutil
import tempfile

import z3

from . import repo
from . import spec


def mval(model, t):
    if isinstance(t, (int, float)):
        return t
    v = model.eval(t, model_completion=True)
    if z3.is_int_value(v):
        return v.as_long()
    if z3.is_rational_value(v):
        return v.numerator_as_long() / v.denominator_as_long()
    if z3.is_true(v):
        return True
    if z3.is_false(v):
        return False
    raise ValueError('no value for %s' % t)


def concretize_inst(J, model):
    g = lambda xs: [mval(model, v) for v in xs]
    return J.with_numerics(g(J.plq), g(J.puq), g(J.llq), g(J.lt), g(J.luq))


def inst_from_data(d):
    return spec.Inst(d['na'], d['ns'], d['np'], d['nl'], d['prefs'], d['plec'], d['lprefs'],
                     d['plq'], d['puq'], d['llq'], d['lt'], d['luq'])


def inst_to_data(I):
    return {'na': I.na, 'ns': I.ns, 'np': I.np, 'nl': I.nl, 'prefs': I.prefs,
            'plec': I.plec, 'lprefs': I.lprefs, 'plq': I.plq, 'puq': I.puq,
            'llq': I.llq, 'lt': I.lt, 'luq': I.luq}


def parse_results(text):
    r = {'raw': text}
    m = re.search(r'^pulp_status: (.*)$', text, re.M)
    r['status'] = m.group(1).strip() if m else None
    r['timeout'] = bool(re.search(r'^Timeout: ', text, re.M))
    m = re.search(r'^matching: (.*)$', text, re.M)
    r['matching'] = [int(t) for t in m.group(1).split()] if m else None
    for key in ('size', 'degree', 'max_lec_abs_diff', 'sum_lec_abs_diff'):
        m = re.search(r'^%s: (-?\d+)$' % key, text, re.M)
        r[key] = int(m.group(1)) if m else None
    for key in ('cost', 'cost_sq'):
        m = re.search(r'^%s: \((-?\d+), (-?\d+)\)$' % key, text, re.M)
        r[key] = (int(m.group(1)), int(m.group(2))) if m else None
    m = re.search(r'^profile: < (.*)>$', text, re.M)
    r['profile'] = [int(t) for t in m.group(1).split()] if m else None
    m = re.search(r'^stability_correct: (\w+)$', text, re.M)
    r['stability_correct'] = m.group(1) if m else None
    r['opt_lines'] = re.findall(r'^- optimisation: (.*)$', text, re.M)
    r['infeasible_bf'] = text.rstrip().endswith('Infeasible')
    for key in ('optimal_size', 'optimal_maxsizemindegree', 'optimal_max_lec_abs_diff',
                'optimal_sum_lec_abs_diff'):
        m = re.search(r'^%s: (-?\d+)$' % key, text, re.M)
        r[key] = int(m.group(1)) if m else None
    for key in ('optimal_maxsizemincost', 'optimal_maxsizeminsqcost'):
        m = re.search(r'^%s: \((-?\d+), (-?\d+)\)$' % key, text, re.M)
        r[key] = (int(m.group(1)), int(m.group(2))) if m else None
    for key in ('optimal_generousmaxprofile', 'optimal_greedymaxprofile', 'optimal_greedyprofile'):
        m = re.search(r'^%s: < (.*)>$' % key, text, re.M)
        r[key] = [int(t) for t in m.group(1).split()] if m else None
    return r


def real_solve(I, flags, argv_opts, pin_x=None, getter='get_results', bf=False,
               time_limit=None, extra_calls=None):
    """Run the unpatched code (real PuLP, real CBC) on concrete instance I.

    pin_x: {(s, p): 0/1}: at the LAST solve, after CBC has produced its optimum,
    the solve is repeated with the objective value fixed to CBC's optimum and the
    matching variables fixed to pin_x: if CBC accepts, that point is an optimal
    solution a MILP solver is entitled to return and is the one reported."""
    ns = repo.load('real')
    import pulp
    from . import e2 as _e2
    out = {'exc': None, 'text': None, 'pin': None, 'solves': 0}
    orig = pulp.LpProblem.solve
    state = {'n': 0, 'probs': []}

    def wrapped(self, solver=None, **kw):
        state['n'] += 1
        st = orig(self, solver, **kw)
        state['probs'].append(self)
        state['last_solver'] = solver
        return st

    try:
        path = _e2.scratch_file('replay.txt')
        with open(path, 'w') as f:
            f.write(spec.inst_to_text(I))
        argv = ['-f', path, '-na', str(I.na)]
        for fl in ('twopl', 'pc', 'stab'):
            if fl in flags:
                argv.append('-' + fl)
        if bf:
            argv.append('-bf')
        argv += list(argv_opts)
        out['argv'] = argv
        pulp.LpProblem.solve = wrapped
        try:
            s = ns.solver.Solver(argv)
            s.solve(msg=False, timeLimit=time_limit, threads=None, write=False)
            out['solves'] = state['n']
            if pin_x is not None and state['probs'] and state['probs'][-1].status == 1:
                prob = state['probs'][-1]
                objv = pulp.value(prob.objective) if prob.objective is not None else None
                extra = []
                byname = {v.name: v for v in prob.variables()}
                for (st_, pr_), val in pin_x.items():
                    v = byname.get('(%d,%d)' % (st_, pr_))
                    if v is None:
                        continue
                    c = (v == val)
                    nm = '_vf_pin_%d_%d' % (st_, pr_)
                    prob += (c, nm)
                    extra.append(nm)
                if objv is not None and len(prob.objective) > 0:
                    prob += (prob.objective >= objv - 1e-6, '_vf_pin_obj')
                    extra.append('_vf_pin_obj')
                st2 = orig(prob, state['last_solver'])
                for nm in extra:
                    del prob.constraints[nm]
                out['pin'] = 'accepted' if st2 == 1 else 'rejected(%s)' % pulp.LpStatus[st2]
                if st2 != 1:
                    orig(prob, state['last_solver'])
                prob.status = 1 if st2 == 1 else prob.status
            try:
                out['text'] = getattr(s, getter)()
            except Exception as e:
                out['getter_exc'] = '%s: %s' % (type(e).__name__, e)
                m = s.model
                if getattr(m, 'pulp_status', None) == 'Optimal':
                    out['text'] = ('pulp_status: Optimal\nmatching: ' +
                                   m._get_matching_string(m._get_pair_assignments()) + '\n')
                else:
                    raise
            if extra_calls:
                out['extra'] = [getattr(s, g)() for g in extra_calls]
        except BaseException as e:  # noqa
            if isinstance(e, KeyboardInterrupt):
                raise
            out['exc'] = '%s: %s' % (type(e).__name__, e)
    finally:
        pulp.LpProblem.solve = orig
    if out['text'] is not None:
        out['parsed'] = parse_results(out['text'])
    return out
