"""Loads the repository's modules from /repo's current working tree.

Two flavours can coexist in one process:
  real - imported against the real ``pulp``
  shim - imported while ``sys.modules['pulp']`` is the recording shim
Both are fresh imports of the files under REPO (no caching across runs: every
check is a new process and bytecode caching is disabled).
"""
import importlib
import os
import sys
import types

REPO = os.environ.get('VF_REPO', '/repo')
sys.dont_write_bytecode = True

_loaded = {}


def _purge():
    for k in [k for k in sys.modules if k == 'matchingproblems' or k.startswith('matchingproblems.')]:
        del sys.modules[k]


def load(flavour='real'):
    if flavour in _loaded:
        return _loaded[flavour]
    if sys.path[0] != REPO:
        if REPO in sys.path:
            sys.path.remove(REPO)
        sys.path.insert(0, REPO)
    saved_pulp = {k: v for k, v in sys.modules.items() if k == 'pulp' or k.startswith('pulp.')}
    _purge()
    try:
        if flavour == 'shim':
            for k in saved_pulp:
                del sys.modules[k]
            from . import pulpshim
            pulpshim.install()
        ns = types.SimpleNamespace()
        ns.flavour = flavour
        ns.solver_pkg = importlib.import_module('matchingproblems.solver')
        ns.solver = importlib.import_module('matchingproblems.solver.solver')
        ns.model = importlib.import_module('matchingproblems.solver.model')
        ns.fileIO = importlib.import_module('matchingproblems.solver.fileIO')
        ns.lp_solver = importlib.import_module('matchingproblems.solver.lp_solver')
        ns.bf = importlib.import_module('matchingproblems.solver.brute_force_solver')
        ns.options_parser = importlib.import_module('matchingproblems.solver.options_parser')
        ns.enums = importlib.import_module('matchingproblems.solver.enums')
        ns.generator_pkg = importlib.import_module('matchingproblems.generator')
        ns.generator = importlib.import_module('matchingproblems.generator.generator')
        ns.gshared = importlib.import_module('matchingproblems.generator.generator_shared')
        ns.ghr = importlib.import_module('matchingproblems.generator.generator_ha_sm_hr')
        ns.gspa = importlib.import_module('matchingproblems.generator.generator_spa')
        ns.iop = importlib.import_module('matchingproblems.generator.instance_options_parser')
        ns.genums = importlib.import_module('matchingproblems.generator.enums')
        for name, mod in vars(ns).items():
            if isinstance(mod, types.ModuleType):
                f = getattr(mod, '__file__', '') or ''
                if not os.path.abspath(f).startswith(os.path.abspath(REPO) + os.sep):
                    raise RuntimeError('module %s loaded from %s, not from %s' % (name, f, REPO))
    finally:
        _purge()
        if flavour == 'shim':
            for k in [k for k in sys.modules if k == 'pulp' or k.startswith('pulp.')]:
                del sys.modules[k]
            sys.modules.update(saved_pulp)
    _loaded[flavour] = ns
    return ns


def head():
    import subprocess
    try:
        h = subprocess.check_output(['git', '-C', REPO, 'rev-parse', 'HEAD'], text=True).strip()
        d = subprocess.check_output(['git', '-C', REPO, 'status', '--porcelain'], text=True).strip()
        return h + ('+dirty' if d else '')
    except Exception:
        return 'unknown'
