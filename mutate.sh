#!/bin/bash
# ./mutate.sh <seeded dir name> <check id> [tier]
# Applies a seeded change to a scratch worktree of /repo (never to /repo itself), runs one
# check against it (VF_REPO), writing evidence/replays to a scratch dir, then removes both.
cd /verif
name=$1; id=$2; tier=${3:-quick}
wt=/tmp/vfmut/$name.$id.$$
mkdir -p /tmp/vfmut
for try in 1 2 3 4 5; do git -C /repo worktree add --detach $wt HEAD >/dev/null 2>&1 && break; sleep 1; done; [ -d $wt ] || exit 3
if ! git -C $wt apply $PWD/seeded/$name/patch.diff 2>/dev/null; then echo "$name: patch does not apply"; git -C /repo worktree remove --force $wt; exit 3; fi
out=$wt.out; mkdir -p $out
VF_REPO=$wt VF_OUT=$out ./check $id --tier $tier > $out/log 2>&1; rc=$?
cp $out/log /tmp/mut_${name}_$id.log
echo "$name on $id: exit=$rc violations=$(grep -c '^VIOLATION' $out/log) harness_errors=$(grep -c 'HARNESS-ERROR' $out/log) $(tail -1 $out/log | grep -o 'wall=.*')"
git -C /repo worktree remove --force $wt; rm -rf $out
exit $rc
