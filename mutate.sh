#!/bin/bash
# ./mutate.sh <seed-dir-name> <check id> [tier]   : apply a seeded change to /repo, run a check, undo.
cd /verif
p=seeded/$1/patch.diff
git -C /repo apply $PWD/$p || exit 3
./check $2 --tier ${3:-quick} > /tmp/mut_$1_$2.log 2>&1; rc=$?
git -C /repo checkout -- . ; git -C /repo clean -fdq matchingproblems
echo "$1 on $2: exit=$rc $(grep -c '^VIOLATION' /tmp/mut_$1_$2.log) violations; $(grep -c 'HARNESS-ERROR' /tmp/mut_$1_$2.log) harness errors"
